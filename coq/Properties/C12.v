(* C12 — Parsers of external data return errors, never crash, on arbitrary bytes.
   Only statements, `exact`, non-vacuity examples and Print Assumptions live here.

   Reading guide (definitions in C12_Parsers.v; decoder part in C11_Nodes.v / C12dec_Total.v):
     ores A = OOk a | OErr | OPanic site      explicit outcomes of a parser; a parser that allocates returns the pair
                                              (outcome, largest single allocation it requests, in bytes)
     flen bs                                  length of the input, as N
     sized_all / bt_all / true                every guard present  = the REPAIRED code (fixes/C12-*.diff)
     sized_none / bt_none / false             no guard             = the code of the pinned tree
     open_sized_c12 g file                    compactindexsized.Open + Header.Load
     lookup_sized_c12 g file h bucket xsum    DB.GetBucket + Bucket.Lookup of a key that hashes to [bucket] with the
                                              64-bit entry hash [xsum] (arbitrary: the theorems hold for every hash)
     meta_u64 g v                             getDefaultMetadata's epoch / Meta.GetUint64 on the stored value v
     car_section g cl bs / car_walk           carreader.ReadNodeInfoWithData / the NextNode loop; cl = go-cid's
                                              CidFromReader (arbitrary function: Some c = a CID in the first c bytes)
     bt_unmarshal_c12 g bs / bt_get           blocktimeindex.FromBytes / Index.Get
     bkt_open g file                          bucketteer.NewReader (readHeader)
     ll_read g gb file offset size dec        linkedlog.ReadWithSize; dec = the zstd decoder's verdict (arbitrary)
     kind_of g data                           the data[1] kind dispatch
     assemble_block g fetched                 GetBlock's transaction loop; fetched = which transaction fetches succeeded
     fast_decode_bytes cid_len guarded k bs   iplddecoders.Decode<kind k> on bytes (C11_Nodes.v)
   "Total" = for ALL inputs the outcome is never OPanic; allocation bounds are stated with their constants.
   Parser recursion is structural or on fuel that the theorems show sufficient (car_walk_total, *_terminates);
   the one unbounded recursion of the repository, the `next` links of data frames, is C14_terminates (restated). *)
From Coq Require Import List Arith NArith ZArith.
Import ListNotations.
Require Import YF.Cbor YF.C11_Nodes YF.C12_Parsers YF.C12_Sites YF.C14_Frames YF.C14_Term.
Require Import YF.Generated.ConstsC11 YF.Generated.PanicSitesC12.
(* the decoder part (kept in this file's closure: rebuilt whenever ConstsC11.v changes) and the checkers evaluated on
   the harnesses' case files *)
Require YF.C12dec_Total YF.C12dec_Check YF.C12_Check.
Local Open Scope N_scope.

(* ================= (1) every potential crash site of the anchored files is classified ================= *)
(* panic_sites_c12 is regenerated from the repository on every check (gen/c12.go): index / slice / array conversion /
   unchecked assertion / make with a non-constant size / division by a non-constant / panic and Must* calls of the
   reader-side functions. A site that C12_Sites.site_table does not classify makes this theorem fail to build:
   "new crash site, no proof". *)
Theorem C12_every_listed_site_is_classified : unclassified panic_sites_c12 = [].
Proof. vm_compute. reflexivity. Qed.

(* ================= (2) compact index (compactindexsized) ================= *)
Theorem C12_open_sized_total : forall file,
  (forall s, fst (open_sized_c12 sized_all file) <> OPanic s) /\
  snd (open_sized_c12 sized_all file) <= 2 * flen file + 65536.
Proof. exact open_sized_total. Qed.

Theorem C12_lookup_sized_total : forall file h bucket xsum s,
  lookup_sized_c12 sized_all file h bucket xsum <> LPanic s.
Proof. exact lookup_sized_total. Qed.

(* the eytzinger descent ends by itself (NumEntries is a uint32): the fuel of the model never decides an answer *)
Theorem C12_lookup_sized_terminates : forall g file h bucket xsum,
  Forall (fun b => b < 256) file -> lookup_sized_c12 g file h bucket xsum <> LFuel.
Proof. exact lookup_sized_terminates. Qed.

(* the incremental header read delivers every header that the stream really holds (no valid file is rejected) *)
Theorem C12_incremental_read_is_complete : forall chunk avail tot,
  0 < chunk -> tot <= avail -> tot < 2 ^ 64 -> fst (read_incr chunk avail tot) = true.
Proof. exact read_incr_complete. Qed.

(* pinned code: concrete witness files *)
Theorem C12_open_sized_refuted_header_length_12 :
  exists file, fst (open_sized_c12 sized_none file) = OPanic site_hdr_fixed /\ fst (open_sized_c12 sized_all file) = OErr.
Proof. exists w_hdr12. split; [exact open_refuted_hdr_len|exact (proj1 open_witnesses_guarded)]. Qed.
Theorem C12_open_sized_refuted_length_wraps_uint32 :
  exists file, fst (open_sized_c12 sized_none file) = OPanic site_hdr_short /\ fst (open_sized_c12 sized_all file) = OErr.
Proof. exists w_hdr_wrap. split; [exact open_refuted_hdr_wrap|exact (proj1 (proj2 open_witnesses_guarded))]. Qed.
Theorem C12_open_sized_refuted_allocation :
  exists file, flen file = 26 /\ snd (open_sized_c12 sized_none file) = 268435468 /\ snd (open_sized_c12 sized_all file) = 65536.
Proof.
  exists w_hdr_big. split; [exact (proj2 open_refuted_alloc)|]. split; [exact (proj1 open_refuted_alloc)|].
  exact (f_equal snd (proj2 (proj2 open_witnesses_guarded))).
Qed.
Theorem C12_lookup_sized_refuted_hash_length :
  exists file h, fst (open_sized_c12 sized_none file) = OOk h /\
                 lookup_sized_c12 sized_none file h 0 5 = LPanic site_entry_slice /\ lookup_sized_c12 sized_all file h 0 5 = LErr.
Proof.
  exists (w_idx 1 200), (mk_hdr 1 1 26). split; [exact (proj1 lookup_refuted_hash_len)|].
  split; [exact (proj2 lookup_refuted_hash_len)|exact (proj1 lookup_witnesses_guarded)].
Qed.
Theorem C12_lookup_sized_refuted_value_size_253 :
  exists file h, lookup_sized_c12 sized_none file h 0 5 = LPanic site_entry_slice /\ lookup_sized_c12 sized_all file h 0 5 = LErr.
Proof. exists (w_idx 253 3), (mk_hdr 253 1 26). split; [exact lookup_refuted_value_size|exact (proj1 (proj2 lookup_witnesses_guarded))]. Qed.

(* ================= (3) index metadata: 8-byte values ================= *)
Theorem C12_meta_u64_total : forall v s, meta_u64 true v <> OPanic s.
Proof. exact meta_u64_total. Qed.
Theorem C12_meta_u64_refuted : exists v, meta_u64 false v = OPanic site_meta_u64 /\ meta_u64 true v = OErr.
Proof. exists (Some [1; 2; 3]). exact meta_u64_refuted. Qed.

(* ================= (4) CAR sections ================= *)
Theorem C12_car_section_total : forall (cl : list N -> option nat) bs,
  (forall s, fst (car_section true cl bs) <> OPanic s) /\ snd (car_section true cl bs) <= 33554432.
Proof. exact car_section_total. Qed.
(* the section loop neither panics nor runs forever: every successful section consumes at least one byte *)
Theorem C12_car_walk_total : forall (cl : list N -> option nat) bs k,
  (forall s, car_walk (S (length bs)) true cl bs k <> WPanic s) /\ car_walk (S (length bs)) true cl bs k <> WFuel.
Proof. exact car_walk_total. Qed.
Theorem C12_car_section_refuted :
  exists cl bs, fst (car_section false cl bs) = OPanic site_car_makeslice /\ fst (car_section true cl bs) = OErr.
Proof. exists (fun _ => Some 36%nat), (2 :: repeat 0 36). exact car_refuted. Qed.

(* ================= (5) block-time index ================= *)
(* forced hypothesis: the input is an in-memory Go byte slice, hence shorter than 2^47 bytes *)
Theorem C12_blocktime_unmarshal_total : forall bs, flen bs < 140737488355328 ->
  (forall s, fst (bt_unmarshal_c12 bt_all bs) <> OPanic s) /\ snd (bt_unmarshal_c12 bt_all bs) <= 2 * flen bs.
Proof. exact bt_unmarshal_total. Qed.
Theorem C12_blocktime_get_total : forall i slot s, bt_get bt_all i slot <> OPanic s.
Proof. exact bt_get_total. Qed.
Theorem C12_blocktime_refuted_capacity :
  (exists bs, fst (bt_unmarshal_c12 bt_none bs) = OPanic site_bt_makeslice /\ fst (bt_unmarshal_c12 bt_all bs) = OErr) /\
  (exists bs, flen bs = 50 /\ snd (bt_unmarshal_c12 bt_none bs) = 8796093022208 /\ snd (bt_unmarshal_c12 bt_all bs) = 0).
Proof.
  split.
  - exists (w_bt 4611686018427387904). split; [exact bt_refuted_makeslice|exact (proj1 bt_witnesses_guarded)].
  - exists (w_bt 1099511627776). split; [exact (proj2 bt_refuted_alloc)|]. split; [exact (proj1 bt_refuted_alloc)|].
    exact (f_equal snd (proj1 (proj2 bt_witnesses_guarded))).
Qed.
Theorem C12_blocktime_refuted_get :
  exists bs i slot, fst (bt_unmarshal_c12 bt_none bs) = OOk i /\ bt_get bt_none i slot = OPanic site_bt_index /\ bt_get bt_all i slot = OErr.
Proof. exists (w_bt 1), (mk_bt 0 431999 0 1), 5. exact bt_refuted_get. Qed.

(* ================= (6) sig-exists (bucketteer) header ================= *)
Theorem C12_bucketteer_open_total : forall file,
  (forall s, fst (bkt_open true file) <> OPanic s) /\ snd (bkt_open true file) <= 2 * flen file + 1048576.
Proof. exact bkt_open_total. Qed.
Theorem C12_bucketteer_refuted_allocation :
  exists file, flen file = 12 /\ snd (bkt_open false file) = 4294967295 /\ snd (bkt_open true file) = 1048576.
Proof.
  exists ([255; 255; 255; 255] ++ bkt_magic). split; [reflexivity|]. split; [exact (proj1 bkt_refuted_alloc)|].
  exact (f_equal snd (proj2 bkt_refuted_alloc)).
Qed.

(* ================= (7) address-index linked log ================= *)
Theorem C12_linkedlog_read_total : forall file offset size (dec : list N -> bool),
  (forall s, fst (ll_read true true file offset size dec) <> OPanic s) /\
  snd (ll_read true true file offset size dec) <= N.min 268435456 (flen file).
Proof. exact ll_read_total. Qed.
Theorem C12_linkedlog_refuted : forall dec,
  exists file, fst (ll_read false false file 0 0 dec) = OPanic site_ll_makeslice /\
               fst (ll_read false false file 0 6 dec) = OPanic site_ll_slice /\
               fst (ll_read true true file 0 0 dec) = OErr /\ fst (ll_read true true file 0 6 dec) = OErr /\
               snd (ll_read true false file 0 268435456 dec) = 268435456 /\ snd (ll_read true true file 0 268435456 dec) = 0.
Proof. intros dec. exists [5; 1; 2; 3; 4; 5]. exact (ll_refuted dec). Qed.

(* ================= (8) kind dispatch and GetBlock's transaction loop ================= *)
Theorem C12_kind_dispatch_total : forall data s, kind_of true data <> OPanic s.
Proof. exact kind_of_total. Qed.
Theorem C12_kind_dispatch_refuted : exists data, kind_of false data = OPanic site_kind_index /\ kind_of true data = OErr.
Proof. exists [130]. split; [exact (proj1 kind_of_refuted)|exact (proj2 (proj2 kind_of_refuted))]. Qed.
Theorem C12_getblock_assembly_total : forall fetched s, assemble_block true fetched <> OPanic s.
Proof. exact assemble_block_total. Qed.
Theorem C12_getblock_assembly_refuted :
  exists fetched, assemble_block false fetched = OPanic site_nil_tx /\ assemble_block true fetched = OErr.
Proof. exists [true; false; true]. exact assemble_block_refuted. Qed.

(* ================= (9) fast IPLD decoders (built by the decoder contributor; restated) ================= *)
Theorem C12_decoders_panic_only_at_unguarded_site : forall (cid_len : list N -> option nat) (guarded : N -> bool) k bs s,
  fast_decode_bytes cid_len guarded k bs = Panic s -> guarded s = false.
Proof. exact C12dec_Total.C12dec_bytes_panic_only_at_unguarded_site. Qed.
Theorem C12_decoders_total : forall (cid_len : list N -> option nat) (guarded : N -> bool),
  (forall s, guarded s = true) -> forall k bs s, fast_decode_bytes cid_len guarded k bs <> Panic s.
Proof. exact C12dec_Total.C12dec_bytes_total. Qed.
Theorem C12_decoders_total_transaction : forall (cid_len : list N -> option nat) (guarded : N -> bool),
  (forall s, guarded s = true) -> forall bs s, fast_decode_bytes_transaction cid_len guarded bs <> Panic s.
Proof. exact C12dec_Total.C12dec_bytes_total_transaction. Qed.
Theorem C12_decoders_total_entry : forall (cid_len : list N -> option nat) (guarded : N -> bool),
  (forall s, guarded s = true) -> forall bs s, fast_decode_bytes_entry cid_len guarded bs <> Panic s.
Proof. exact C12dec_Total.C12dec_bytes_total_entry. Qed.
Theorem C12_decoders_total_block : forall (cid_len : list N -> option nat) (guarded : N -> bool),
  (forall s, guarded s = true) -> forall bs s, fast_decode_bytes_block cid_len guarded bs <> Panic s.
Proof. exact C12dec_Total.C12dec_bytes_total_block. Qed.
Theorem C12_decoders_total_subset : forall (cid_len : list N -> option nat) (guarded : N -> bool),
  (forall s, guarded s = true) -> forall bs s, fast_decode_bytes_subset cid_len guarded bs <> Panic s.
Proof. exact C12dec_Total.C12dec_bytes_total_subset. Qed.
Theorem C12_decoders_total_epoch : forall (cid_len : list N -> option nat) (guarded : N -> bool),
  (forall s, guarded s = true) -> forall bs s, fast_decode_bytes_epoch cid_len guarded bs <> Panic s.
Proof. exact C12dec_Total.C12dec_bytes_total_epoch. Qed.
Theorem C12_decoders_total_rewards : forall (cid_len : list N -> option nat) (guarded : N -> bool),
  (forall s, guarded s = true) -> forall bs s, fast_decode_bytes_rewards cid_len guarded bs <> Panic s.
Proof. exact C12dec_Total.C12dec_bytes_total_rewards. Qed.
Theorem C12_decoders_total_dataframe : forall (cid_len : list N -> option nat) (guarded : N -> bool),
  (forall s, guarded s = true) -> forall bs s, fast_decode_bytes_dataframe cid_len guarded bs <> Panic s.
Proof. exact C12dec_Total.C12dec_bytes_total_dataframe. Qed.
(* pinned decoders: one witness per assertion site *)
Theorem C12_decoders_refuted :
  (exists bs, fast_decode_bytes_block cid_len_impl none_guarded bs = Panic site_block_meta) /\
  (exists bs, fast_decode_bytes_entry cid_len_impl none_guarded bs = Panic site_entry_hash) /\
  (exists bs, fast_decode_bytes_transaction cid_len_impl none_guarded bs = Panic site_tx_data) /\
  (exists bs, fast_decode_bytes_transaction cid_len_impl none_guarded bs = Panic site_tx_metadata) /\
  (exists bs, fast_decode_bytes_rewards cid_len_impl none_guarded bs = Panic site_rewards_data) /\
  (exists bs, fast_decode_bytes_entry cid_len_impl none_guarded bs = Panic site_link_empty) /\
  (exists bs, fast_decode_bytes_block cid_len_impl none_guarded bs = Panic site_block_rewards_empty).
Proof.
  exact (conj C12dec_Total.C12dec_refuted_block_meta (conj C12dec_Total.C12dec_refuted_entry_hash
        (conj C12dec_Total.C12dec_refuted_tx_data (conj C12dec_Total.C12dec_refuted_tx_metadata
        (conj C12dec_Total.C12dec_refuted_rewards_data (conj C12dec_Total.C12dec_refuted_link_empty_tag42
              C12dec_Total.C12dec_refuted_block_rewards_empty_tag42)))))).
Qed.

(* ================= (10) "loop forever": data-frame reassembly (C14, restated) ================= *)
Theorem C12_dataframe_collection_terminates : forall srt (sl : list (cid * frame)) f0, load_auto srt sl f0 <> OutOfFuel.
Proof. exact load_auto_total. Qed.

(* ================= (11) the block-time table's Get, TRANSLATED from blocktimeindex/writer.go on every check
   (Generated/GoLiteBT.v, interpreter coq/GoLite.v in which an index outside a slice IS a panic): for every table
   (start, end and the number of values come from the file and need not agree) and every slot the call returns the
   outcome class of the model's bt_get with all guards on — a value or the out-of-range error, never a panic ===== *)
Require YF.GoLite YF.Generated.GoLiteBT YF.GoLiteBT_Index.
Import String.
Theorem C12_translated_blocktime_Get_never_panics : forall fuel (start end_ epoch : N) (values : list N) (slot : N) (ep cap : Z),
  (start < 18446744073709551616)%N -> (end_ < 18446744073709551616)%N -> (slot < 18446744073709551616)%N ->
  (N.of_nat (List.length values) < 18446744073709551616)%N ->
  match bt_get bt_all (mk_bt start end_ epoch (N.of_nat (List.length values))) slot with
  | OOk _ => exists v, GoLite.call GoLiteBT.prog GoLiteBT_Index.ext_bt fuel "Index.Get"%string
        [GoLiteBT_Index.index_val (Z.of_N start) (Z.of_N end_) ep cap (map Z.of_N values); GoLite.VInt (Z.of_N slot)]
        = GoLite.RRet (GoLite.VTuple [GoLite.VInt v; GoLite.VNil])
  | OErr => GoLite.call GoLiteBT.prog GoLiteBT_Index.ext_bt fuel "Index.Get"%string
        [GoLiteBT_Index.index_val (Z.of_N start) (Z.of_N end_) ep cap (map Z.of_N values); GoLite.VInt (Z.of_N slot)]
        = GoLite.RRet (GoLite.VTuple [GoLite.VInt 0%Z; GoLiteBT_Index.oor])
  | OPanic _ => False
  end.
Proof.
  exact (fun fuel start end_ epoch values slot ep cap =>
    GoLiteBT_Index.Get_class_is_c12 GoLiteBT.prog GoLiteBT.prog_Index_Get fuel start end_ epoch values slot ep cap).
Qed.
(* the translated Get RUNS; on the witness of the pinned tree's former defect (capacity 1, slot 5) it is the error *)
Example C12_translated_blocktime_Get_runs :
  GoLite.call GoLiteBT.prog GoLiteBT_Index.ext_bt 0 "Index.Get"%string
    [GoLiteBT_Index.index_val 0 431999 0 1 [77%Z]; GoLite.VInt 5%Z] = GoLite.RRet (GoLite.VTuple [GoLite.VInt 0%Z; GoLiteBT_Index.oor]) /\
  GoLite.call GoLiteBT.prog GoLiteBT_Index.ext_bt 0 "Index.Get"%string
    [GoLiteBT_Index.index_val 0 431999 0 1 [77%Z]; GoLite.VInt 0%Z] = GoLite.RRet (GoLite.VTuple [GoLite.VInt 77%Z; GoLite.VNil]).
Proof. vm_compute. split; reflexivity. Qed.

(* ================= non-vacuity ================= *)
(* a well-formed index is opened and a stored key is found by the repaired model: the theorems are not about a
   parser that rejects everything *)
Example C12_nonvacuous_sized :
  fst (open_sized_c12 sized_all (w_idx 1 3)) = OOk (mk_hdr 1 1 26) /\
  lookup_sized_c12 sized_all (w_idx 1 3) (mk_hdr 1 1 26) 0 5 = LFound.
Proof. vm_compute. split; reflexivity. Qed.
Example C12_nonvacuous_blocktime :
  bt_unmarshal_c12 bt_all (w_bt 1) = (OOk (mk_bt 0 431999 0 1), 8) /\ bt_get bt_all (mk_bt 0 431999 0 1) 0 = OOk tt.
Proof. vm_compute. split; reflexivity. Qed.
Example C12_nonvacuous_car :
  car_walk 100 true (fun _ => Some 4%nat) [6; 1; 113; 18; 0; 7; 7; 5; 1; 113; 18; 0; 9] 0 = WDone 2.
Proof. vm_compute. reflexivity. Qed.
Example C12_nonvacuous_sites : (List.length panic_sites_c12 >= 100)%nat /\ (n_guarded >= 20)%nat.
Proof. vm_compute. split; repeat constructor. Qed.

Print Assumptions C12_every_listed_site_is_classified.
Print Assumptions C12_open_sized_total.
Print Assumptions C12_lookup_sized_total.
Print Assumptions C12_lookup_sized_terminates.
Print Assumptions C12_car_walk_total.
Print Assumptions C12_blocktime_unmarshal_total.
Print Assumptions C12_bucketteer_open_total.
Print Assumptions C12_linkedlog_read_total.
Print Assumptions C12_decoders_total.
Print Assumptions C12_dataframe_collection_terminates.
Print Assumptions C12_translated_blocktime_Get_never_panics.
