(* C09 — Queries and epoch reloads never deadlock and see a consistent epoch set.
   Only statements, `exact`, vm_compute facts about the GENERATED lock programs, non-vacuity examples and
   Print Assumptions live here.

   Lock model (RW.v): Go's writer-preferring sync.RWMutex as a transition system; a thread is a list of
   RLock | RUnlock | WLock | WUnlock | Work; WLock is announce (blocks new readers) then acquire; a schedule is
   the list of thread numbers that take the next step. `programs` (Generated/LockProgramsC09.v) is re-generated from
   /repo's package main on every check: one program per function and control-flow path, callees inlined. *)
From Coq Require Import List Arith NArith Permutation Sorting.Sorted String.
Import ListNotations.
Require Import YF.RW YF.RW2 YF.C09_Lock YF.C09_EpochSet YF.C09_Check.
Require Import YF.Generated.LockProgramsC09.

(* ------------------------------------------------------------------------------------------------ *)
(* A. the lock, for ANY programs                                                                      *)

(* (a) flat programs (never acquire while holding, release what they acquire) never deadlock: for every number of
       threads and EVERY schedule, the reached state is finished or some thread can step *)
Theorem C09_flat_deadlock_free : forall (threads : list (list op)) (sched : list nat) (s : state),
  Forall (fun p => flat p = true) threads ->
  run {| progs := threads; readers := 0; ws := WNone |} sched = Some s ->
  done s \/ exists t s', step s t = Some s'.
Proof. exact deadlock_free. Qed.

(* (b) every schedule is finite: at most 2*(number of operations)+1 steps — so every maximal schedule ends *)
Theorem C09_schedules_finite : forall (threads : list (list op)) (sched : list nat) (s : state),
  run {| progs := threads; readers := 0; ws := WNone |} sched = Some s ->
  List.length sched <= 2 * list_sum (map (@List.length op) threads) + 1.
Proof. exact schedules_finite. Qed.

(* (c) the nested read lock: EVERY program that takes RLock again while read-holding (pre ends read-holding)
       deadlocks against one writer under the schedule "run alone up to the first RLock; writer announces" *)
Theorem C09_nested_deadlocks : forall (pre rest : list op),
  mode_after Out pre = Some InR ->
  exists s, run {| progs := [pre ++ RLock :: rest; [WLock; WUnlock]]; readers := 0; ws := WNone |}
                (solo_sched pre ++ [1]) = Some s
            /\ (forall t, step s t = None) /\ ~ done s.
Proof. exact nested_shape_deadlocks. Qed.

(* (d) the schedule search used on observed traces is sound (what it returns deadlocks in the transition system),
       finds the nested read lock, and never flags a flat program *)
Theorem C09_find_deadlock_sound : forall (p : list op) (sched : list nat),
  find_deadlock p = Some sched ->
  exists s, run {| progs := [p; [WLock; WUnlock]]; readers := 0; ws := WNone |} sched = Some s
            /\ (forall t, step s t = None) /\ ~ done s.
Proof. exact find_deadlock_sound. Qed.
Theorem C09_find_deadlock_finds_nested : forall (p : list op) (sched : list nat),
  deadlock_schedule p = Some sched -> find_deadlock p = Some sched.
Proof. exact nested_found. Qed.
Theorem C09_flat_never_flagged : forall p : list op, flat p = true -> find_deadlock p = None.
Proof. exact flat_find_deadlock_none. Qed.

(* ------------------------------------------------------------------------------------------------ *)
(* B. the epoch set                                                                                   *)

(* (e) the list of available epochs is strictly descending — duplicate-free and newest first — in every state
       reachable from the empty set through any sequence of the five writers, and for every duplicate-free map *)
Theorem C09_listing : forall ws : list wop,
  StronglySorted N.gt (epoch_numbers (fold_left apply ws [])).
Proof. exact listing_reachable. Qed.
Theorem C09_listing_map : forall m : emap,
  NoDup (map fst m) -> StronglySorted N.gt (epoch_numbers m) /\ NoDup (epoch_numbers m)
                       /\ forall k, In k (epoch_numbers m) <-> lookup m k <> None.
Proof.
  intros m H. split; [exact (listing_sorted m H)|]. split; [exact (listing_NoDup m H)|]. exact (listing_complete m).
Qed.
(* whatever order the Go map is ranged in and whatever sorted permutation sort.Slice returns (no stability
   assumed), the result is the model's listing *)
Theorem C09_listing_any_order : forall (m : emap) (l : list N),
  NoDup (map fst m) -> Permutation l (map fst m) -> StronglySorted N.ge l ->
  l = epoch_numbers m /\ StronglySorted N.gt l.
Proof. exact listing_any_order. Qed.

(* (f) most recent / oldest available epoch, computed from the listing and the map under ONE read lock: a loaded
       epoch object, stored under the largest / smallest loaded number *)
Theorem C09_most_recent : forall m : emap, NoDup (map fst m) -> m <> [] ->
  exists n e, most_recent m = Some e /\ lookup m n = Some e /\ forall k, In k (map fst m) -> (k <= n)%N.
Proof. exact most_recent_spec. Qed.
Theorem C09_oldest : forall m : emap, NoDup (map fst m) -> m <> [] ->
  exists n e, oldest m = Some e /\ lookup m n = Some e /\ forall k, In k (map fst m) -> (n <= k)%N.
Proof. exact oldest_spec. Qed.

(* (g) isolated query: a query addressed to epoch e (its reads of the epoch set: GetEpoch e, HasEpoch e, "is e
       listed"), interleaved in ANY way with writers none of which targets e, gets exactly the answers of the idle
       server (the same reads with all writes dropped); while e is loaded every read returns the same object *)
Theorem C09_isolated_query : forall (tr : list event) (m : emap) (e : N),
  (forall w, In (W w) tr -> target w <> e) ->
  run_query m e tr = run_query m e (filter is_query tr).
Proof. exact isolated_query. Qed.
Theorem C09_isolated_query_same_object : forall (tr : list event) (m : emap) (e : N) (ep : epoch),
  lookup m e = Some ep ->
  (forall w, In (W w) tr -> target w <> e) ->
  Forall (fun a => a = AEpoch (Some ep) \/ a = ABool true) (run_query m e tr).
Proof. exact isolated_query_same_object. Qed.

(* ------------------------------------------------------------------------------------------------ *)
(* C. the checker run on the implementation's observations is the model of the theorems               *)
(* norm (C09_Check.v) is the loop normal form: in a trace made of whole [RLock; RUnlock] / [WLock; WUnlock]
   sections a run of more than two identical consecutive sections is cut to two (the translator unrolls loops
   0..2 times); every other trace, in particular every nested one, is left unchanged *)
Theorem C09_checker_trace_sound : forall (name : string) (obs : list op),
  case_ok (CTrace name obs) = true -> exists p, In p programs /\ norm p = norm obs.
Proof. exact ctrace_ok_in. Qed.
Theorem C09_checker_deadlock_sound : forall p : list op, model_deadlocks p = true ->
  exists sched s, run {| progs := [p; [WLock; WUnlock]]; readers := 0; ws := WNone |} sched = Some s
                  /\ (forall t, step s t = None) /\ ~ done s.
Proof. exact model_deadlocks_sound. Qed.
Theorem C09_checker_history_wf : forall (m : emap) (o : mop) (b : mobs) (m' : emap),
  NoDup (map fst m) -> mstep m o b = Some m' -> NoDup (map fst m').
Proof. exact mstep_wf. Qed.

(* ------------------------------------------------------------------------------------------------ *)
(* D. the code as it is NOW: facts about the generated lock programs (these fail to build, on purpose, when a
      function of package main nests acquisitions of MultiEpoch.mu or touches the epoch map outside the lock) *)

(* (h) every generated program is flat *)
Theorem C09_programs_flat : forallb flat programs = true.
Proof. vm_compute. reflexivity. Qed.

(* (i) no function reads or writes the epoch map on a path where the lock is not held, and none assigns to it or
       deletes from it on a path where the WRITE lock is not held (static facts of the translator) *)
Theorem C09_epoch_map_guarded : unguarded_map_access = [] /\ map_write_without_wlock = [].
Proof. split; reflexivity. Qed.

(* (j) deadlock freedom of the code's programs: any number of goroutines, each running any finite sequence of
       calls of functions of package main (each call one of the generated programs), under EVERY schedule *)
Theorem C09_deadlock_free : forall (threads : list (list op)) (sched : list nat) (s : state),
  Forall (fun th => exists calls, Forall (fun c => In c programs) calls /\ th = List.concat calls) threads ->
  run {| progs := threads; readers := 0; ws := WNone |} sched = Some s ->
  done s \/ exists t s', step s t = Some s'.
Proof. exact (fun threads sched s => deadlock_free_calls programs threads sched s C09_programs_flat). Qed.

(* (k) every operation completes: a schedule that cannot be extended has finished every thread *)
Theorem C09_terminates : forall (threads : list (list op)) (sched : list nat) (s : state),
  Forall (fun th => exists calls, Forall (fun c => In c programs) calls /\ th = List.concat calls) threads ->
  run {| progs := threads; readers := 0; ws := WNone |} sched = Some s ->
  (forall t, step s t = None) -> done s.
Proof. exact (fun threads sched s => maximal_schedule_done programs threads sched s C09_programs_flat). Qed.

(* ---------- non-vacuity ---------- *)
(* the generated list contains reader and writer programs, and a concrete 3-thread run over them completes *)
Example C09_nonvacuous_programs :
  In [RLock; RUnlock] programs /\ In [WLock; WUnlock] programs /\ (10 <= List.length programs)%nat.
Proof. vm_compute. repeat split; auto 200 using le_n, le_S. Qed.
Example C09_nonvacuous_run :
  exists s, run {| progs := [[RLock; RUnlock] ++ [RLock; RUnlock]; [WLock; WUnlock]; [RLock; RUnlock]];
                   readers := 0; ws := WNone |} [0; 1; 0; 1; 1; 2; 0; 2; 0] = Some s /\ all_doneb s = true.
Proof. eexists. split; vm_compute; reflexivity. Qed.
(* the nested read lock of the unrepaired GetMostRecentAvailableEpoch is found with the three-step schedule *)
Example C09_nonvacuous_nested :
  find_deadlock [RLock; RLock; RUnlock; RUnlock] = Some [0; 1]
  /\ deadlockedb [[RLock; RLock; RUnlock; RUnlock]; [WLock; WUnlock]] [0; 1] = true.
Proof. split; vm_compute; reflexivity. Qed.
Example C09_nonvacuous_listing :
  let e := fun i => {| eid := i; epath := i |} in
  epoch_numbers (fold_left apply [Add 5 (e 1); Add 9 (e 2); Add 5 (e 3); ReplaceOrAdd 7 (e 4); Remove 9; Add 12 (e 5)]%N [])
  = [12; 7; 5]%N.
Proof. vm_compute. reflexivity. Qed.

Print Assumptions C09_flat_deadlock_free.
Print Assumptions C09_schedules_finite.
Print Assumptions C09_nested_deadlocks.
Print Assumptions C09_find_deadlock_sound.
Print Assumptions C09_find_deadlock_finds_nested.
Print Assumptions C09_flat_never_flagged.
Print Assumptions C09_listing.
Print Assumptions C09_listing_map.
Print Assumptions C09_listing_any_order.
Print Assumptions C09_most_recent.
Print Assumptions C09_oldest.
Print Assumptions C09_isolated_query.
Print Assumptions C09_isolated_query_same_object.
Print Assumptions C09_checker_trace_sound.
Print Assumptions C09_checker_deadlock_sound.
Print Assumptions C09_checker_history_wf.
Print Assumptions C09_programs_flat.
Print Assumptions C09_epoch_map_guarded.
Print Assumptions C09_deadlock_free.
Print Assumptions C09_terminates.
