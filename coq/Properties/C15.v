(* C15 — Block-by-block CAR traversal delivers each object once with its true offset.
   Only statements, `exact`, Print Assumptions and non-vacuity examples live here.

   Model: YF.C15_Accum (accum/block.go: Run = producer, startFlusher = consumer, flushQueue = bounded FIFO),
   over the CAR layout of YF.Car (car = header ++ sections, section = uvarint(len) ++ cid ++ data).
   Scope of the model: well-formed CARv1 files whose payloads have at least 2 bytes (the kind is data[1])
   and whose sections do not exceed go-car's MaxAllowedSectionSize; a callback that returns nil; a context
   that is not cancelled; file shorter than 2^64 bytes (offsets are uint64 in Go, unbounded N here). *)
From Coq Require Import List Arith NArith Bool Lia ZifyN ZifyNat.
Import ListNotations.
Require Import YF.Codec YF.ReadAt YF.Car YF.C15_Accum YF.C15_Offsets YF.C15_Check YF.Generated.ConstsC15.

(* In all statements: [O] object type with section length [slen] and kind [kind] (arbitrary functions),
   [fk] the flush kind, [ign] the ignore set, [cap] the queue capacity, [hdrlen] the header size,
   [nskip] SetSkip's count, [objs] the sections of the file in order, [cs] ANY schedule of the three
   actors' steps (producer step / flusher receives / flusher's callback returns). *)

(* (a) When Run returns, the callback has been invoked with exactly the groups of the specification:
       the kept objects (blocks, and objects whose kind is not ignored) after the skipped ones, cut after
       every block; each block once, in file order, with the kept objects stored since the previous block
       as children; kept objects after the last block as a final parentless group (only if there are any). *)
Theorem C15_groups : forall (O : Type) (slen kind : O -> N) (fk : N) (ign : list N) (cap : nat)
    (hdrlen : N) (nskip : nat) (objs : list O) (cs : list choice) (s : state O),
  run O slen kind fk ign cap (init O hdrlen nskip objs) cs = Some s -> ph s = Closed ->
  delivered s =
  filter nonempty
    (split_groups O kind fk [] (filter (keep O kind fk ign) (skipn nskip (items O slen hdrlen objs)))).
Proof. exact groups_delivered. Qed.

(* (a') at every moment of every schedule the callbacks completed so far are a prefix of that list:
        never a block twice, never out of file order, never with other children *)
Theorem C15_delivered_prefix : forall (O : Type) (slen kind : O -> N) (fk : N) (ign : list N) (cap : nat)
    (hdrlen : N) (nskip : nat) (objs : list O) (cs : list choice) (s : state O),
  run O slen kind fk ign cap (init O hdrlen nskip objs) cs = Some s ->
  exists rest, groups_spec O slen kind fk ign hdrlen nskip objs = delivered s ++ rest.
Proof. exact delivered_prefix. Qed.

(* (b) every delivered object (parent or child) carries the offset and section length at which its
       section really sits in the file: reading the file there gives uvarint(len) ++ cid ++ data of that
       very object — counting skipped and ignored sections too *)
Theorem C15_offsets : forall (kind : obj -> N) (fk : N) (ign : list N) (cap nskip : nat)
    (hdr : list N) (objs : list obj) (cs : list choice) (s : state obj) (g : group obj) (it : item obj),
  run obj slenN kind fk ign cap (init obj (N.of_nat (length hdr)) nskip objs) cs = Some s ->
  In g (delivered s) -> In it (flat g) ->
  read_at (car hdr objs) (N.to_nat (it_off it)) (N.to_nat (it_len it)) = Some (section (it_obj it)).
Proof. exact delivered_offsets. Qed.

Theorem C15_section_length : forall (kind : obj -> N) (fk : N) (ign : list N) (cap nskip : nat)
    (hdr : list N) (objs : list obj) (cs : list choice) (s : state obj) (g : group obj) (it : item obj),
  run obj slenN kind fk ign cap (init obj (N.of_nat (length hdr)) nskip objs) cs = Some s ->
  In g (delivered s) -> In it (flat g) ->
  N.to_nat (it_len it) = length (section (it_obj it)).
Proof. exact delivered_length. Qed.

(* (c) the result does not depend on the relative speed of reader and consumer *)
Theorem C15_schedule_independent : forall (O : Type) (slen kind : O -> N) (fk : N) (ign : list N) (cap : nat)
    (hdrlen : N) (nskip : nat) (objs : list O) (cs1 cs2 : list choice) (s1 s2 : state O),
  run O slen kind fk ign cap (init O hdrlen nskip objs) cs1 = Some s1 -> ph s1 = Closed ->
  run O slen kind fk ign cap (init O hdrlen nskip objs) cs2 = Some s2 -> ph s2 = Closed ->
  delivered s1 = delivered s2.
Proof. exact schedule_independent. Qed.

(* (d) no deadlock, for any queue capacity >= 1: in every state (reachable or not) in which Run has not
       returned, some actor can move; every schedule has at most 3*(sections+2) steps; from every state
       Run can be brought to its return. Hence every maximal schedule ends with Run returned. *)
Theorem C15_no_deadlock : forall (O : Type) (slen kind : O -> N) (fk : N) (ign : list N) (cap : nat) (s : state O),
  1 <= cap -> ph s <> Closed -> exists c s', step O slen kind fk ign cap s c = Some s'.
Proof. exact progress. Qed.

Theorem C15_schedules_finite : forall (O : Type) (slen kind : O -> N) (fk : N) (ign : list N) (cap : nat)
    (hdrlen : N) (nskip : nat) (objs : list O) (cs : list choice) (s : state O),
  run O slen kind fk ign cap (init O hdrlen nskip objs) cs = Some s -> length cs <= 3 * (length objs + 2).
Proof. exact schedule_bounded. Qed.

Theorem C15_can_complete : forall (O : Type) (slen kind : O -> N) (fk : N) (ign : list N) (cap : nat),
  1 <= cap -> forall s : state O, exists cs s', run O slen kind fk ign cap s cs = Some s' /\ ph s' = Closed.
Proof. exact can_complete. Qed.

(* the capacity the code builds the queue with (generated from accum/block.go on every check). An unbuffered
   channel (capacity 0) behaves like a sub-set of the capacity-1 schedules (send and receive happen together),
   so (a)-(c) cover it as well; the deadlock-freedom statement below is for the buffered queue. *)
Definition model_capacity : nat := N.to_nat (N.max 1 flush_queue_capacity).

Theorem C15_real_capacity_ok : 1 <= model_capacity.
Proof. unfold model_capacity. pose proof (N.le_max_l 1 flush_queue_capacity). lia. Qed.

Theorem C15_no_deadlock_real_capacity : forall (O : Type) (slen kind : O -> N) (fk : N) (ign : list N) (s : state O),
  ph s <> Closed -> exists c s', step O slen kind fk ign model_capacity s c = Some s'.
Proof. intros O slen kind fk ign s. exact (progress O slen kind fk ign _ s C15_real_capacity_ok). Qed.

(* (e) what the specification list is, in the words of the property (no reference to the producer):
   (e1) children-then-parent of all groups, concatenated = the kept objects in file order, each once *)
Theorem C15_spec_covers_kept_objects_once_in_order : forall (O : Type) (slen kind : O -> N) (fk : N) (ign : list N)
    (hdrlen : N) (nskip : nat) (objs : list O),
  concat (map flat (groups_spec O slen kind fk ign hdrlen nskip objs)) =
  filter (keep O kind fk ign) (skipn nskip (items O slen hdrlen objs)).
Proof. exact spec_flat. Qed.

(* (e2) the parents are exactly the blocks, in file order (a block is a parent even if its kind is ignored) *)
Theorem C15_spec_parents_are_the_blocks : forall (O : Type) (slen kind : O -> N) (fk : N) (ign : list N)
    (hdrlen : N) (nskip : nat) (objs : list O),
  parents (groups_spec O slen kind fk ign hdrlen nskip objs) =
  filter (fun it => is_flush O kind fk (it_obj it)) (skipn nskip (items O slen hdrlen objs)).
Proof. exact spec_parents. Qed.

(* (e3) no child is a block: a group's children all lie between the previous block and its parent *)
Theorem C15_spec_children_not_blocks : forall (O : Type) (slen kind : O -> N) (fk : N) (ign : list N)
    (hdrlen : N) (nskip : nat) (objs : list O) (g : group O),
  In g (groups_spec O slen kind fk ign hdrlen nskip objs) ->
  Forall (fun it => is_flush O kind fk (it_obj it) = false) (snd g).
Proof. exact spec_children_not_blocks. Qed.

(* (e4) only the last group can lack a parent, and then it has at least one child *)
Theorem C15_spec_parentless_only_last : forall (O : Type) (slen kind : O -> N) (fk : N) (ign : list N)
    (hdrlen : N) (nskip : nat) (objs : list O),
  exists gs tl, groups_spec O slen kind fk ign hdrlen nskip objs = gs ++ tl /\
                Forall (fun g => fst g <> None) gs /\ (tl = [] \/ exists c ch, tl = [(None, c :: ch)]).
Proof. exact spec_parentless_only_last. Qed.

(* (f) the checker run on the implementation's observations: a passing case means the observed callback
       sequence equals the specification's; and the model run by the checker under any scheduler that
       considers every actor returns exactly the specification's groups *)
Theorem C15_checker_sound : forall hdrlen secs fk ign nskip capN obs,
  case_ok (hdrlen, secs, fk, ign, nskip, capN, obs) = true -> obs = spec_obs hdrlen secs fk ign nskip.
Proof. exact case_ok_meaning. Qed.

Theorem C15_model_run_total : forall (O : Type) (slen kind : O -> N) (fk : N) (ign : list N) (cap : nat)
    (prefs : list choice) (hdrlen : N) (nskip : nat) (objs : list O),
  1 <= cap -> In Prod prefs /\ In Recv prefs /\ In Flush prefs ->
  model_groups O slen kind fk ign cap prefs hdrlen nskip objs =
  Some (groups_spec O slen kind fk ign hdrlen nskip objs).
Proof. exact model_groups_total. Qed.

(* ---------------------------------- non-vacuity ---------------------------------- *)
(* A concrete CAR: 3-byte header, objects with kinds (data[1]) 1,0,2 | 4 | 2 | 0,5 — flush kind 2 (Block),
   ignoring kind 4; queue capacity 1 with the producer running ahead, capacity 1000 with the consumer first.
   Both schedules make Run return and deliver: block#2 with children #0,#1; block#4 with no children
   (object #3 is ignored but its bytes are counted); trailing group with #5,#6. Every offset reads back. *)
Definition ex_obj (c k x : N) : obj := {| cid := [1; 113; c]%N; data := [130; k; x]%N |}.
Definition ex_hdr : list N := [2; 160; 161]%N.
Definition ex_objs : list obj :=
  [ex_obj 10 1 7; ex_obj 11 0 8; ex_obj 12 2 9; ex_obj 13 4 1; ex_obj 14 2 2; ex_obj 15 0 3; ex_obj 16 5 4]%N.

Definition ex_proj (gs : list (group obj)) :=
  map (fun g => (match fst g with Some p => Some (nth 2 (cid (it_obj p)) 0%N, it_off p, it_len p) | None => None end,
                 map (fun it => (nth 2 (cid (it_obj it)) 0%N, it_off it, it_len it)) (snd g))) gs.

Example C15_nonvacuous :
  let r1 := exec obj slenN kind_byte 2%N [4%N] 1 (fuel_for obj ex_objs) producer_first (init obj 3%N 0 ex_objs) [] in
  let r2 := exec obj slenN kind_byte 2%N [4%N] 1000 (fuel_for obj ex_objs) consumer_first (init obj 3%N 0 ex_objs) [] in
  ph (fst r1) = Closed /\ ph (fst r2) = Closed /\ snd r1 <> snd r2 /\
  run obj slenN kind_byte 2%N [4%N] 1 (init obj 3%N 0 ex_objs) (snd r1) = Some (fst r1) /\
  ex_proj (delivered (fst r1)) =
    [ (Some (12, 17, 7), [(10, 3, 7); (11, 10, 7)]); (Some (14, 31, 7), []); (None, [(15, 38, 7); (16, 45, 7)]) ]%N /\
  delivered (fst r2) = delivered (fst r1) /\
  forallb (fun g => forallb (fun it =>
      match read_at (car ex_hdr ex_objs) (N.to_nat (it_off it)) (N.to_nat (it_len it)) with
      | Some bs => if list_eq_dec N.eq_dec bs (section (it_obj it)) then true else false
      | None => false end) (flat g)) (delivered (fst r1)) = true.
Proof.
  cbv zeta. split; [vm_compute; reflexivity|]. split; [vm_compute; reflexivity|].
  split; [vm_compute; discriminate|]. split; [vm_compute; reflexivity|].
  split; [vm_compute; reflexivity|]. split; vm_compute; reflexivity.
Qed.

Print Assumptions C15_groups.
Print Assumptions C15_delivered_prefix.
Print Assumptions C15_offsets.
Print Assumptions C15_section_length.
Print Assumptions C15_schedule_independent.
Print Assumptions C15_no_deadlock.
Print Assumptions C15_schedules_finite.
Print Assumptions C15_can_complete.
Print Assumptions C15_real_capacity_ok.
Print Assumptions C15_no_deadlock_real_capacity.
Print Assumptions C15_spec_covers_kept_objects_once_in_order.
Print Assumptions C15_spec_parents_are_the_blocks.
Print Assumptions C15_spec_children_not_blocks.
Print Assumptions C15_spec_parentless_only_last.
Print Assumptions C15_checker_sound.
Print Assumptions C15_model_run_total.
