(* C17 — Remote-file range cache is transparent.
   Only statements, `exact`, Print Assumptions and non-vacuity examples live here.

   Model (C17_RC.v, follows range-cache/range-cache.go): state = cache (association list Range -> bytes) +
   the pending miss of every thread.  A history x schedule is a list of (thread, atomic action):
     ALookup start ln pick cancel   GetRange part 1: int64 range check, then the read-locked lookup (exact key,
                                    else ANY superset entry — [pick] is the Go map iteration order — with the
                                    sub-slice arithmetic; [cancel]: ctx seen cancelled inside the loop)
     AMiss fetch_ok del cancel      GetRange part 2 under the write lock: remote fetch, cached only on success
     ASet start ln v del cancel     SetRange ([del]: which subsets the random-order loop deleted before it stopped)
     ADeleteOld old                 DeleteOldEntries (any set of entries)
   Actions of other threads may come between the ALookup and the AMiss of one GetRange.  Disabled actions
   (an AMiss of a thread without a pending miss, an ALookup of a thread inside a GetRange) are no-ops, so
   EVERY list is a schedule.  [remote_read remote start ln] is the specification: io.ReaderAt on the remote. *)
From Coq Require Import List Arith NArith ZArith Bool.
Import ListNotations.
Require Import YF.ReadAt YF.C17_RC YF.C17_Check YF.Generated.RangePredsC17 YF.C17_Preds.

(* the specification side is io.ReaderAt on the remote bytes (a read not inside the file is None) *)
Theorem C17_spec_is_read_at : forall remote start ln, (0 <= start)%Z -> (0 <= ln)%Z ->
  remote_read remote start ln = read_at remote (Z.to_nat start) (Z.to_nat ln).
Proof. exact remote_read_is_read_at. Qed.

(* (a) INVARIANT: every cached entry is a range inside the file and equals the remote slice (and every pending
       miss is for a range that passed the check).  It holds initially and is preserved by every action of
       every thread, whatever the nondeterministic choices; SetRange values must be truthful (the cache cannot
       check them; no caller in the repository uses SetRange). *)
Theorem C17_invariant_initially : forall remote r v,
  In (r, v) (st_cache init) -> fst r <= snd r /\ snd r <= length remote /\ v = slice remote (fst r) (snd r).
Proof. exact (fun remote r v H => match H with end). Qed.

Theorem C17_invariant_preserved : forall remote st t a,
  (forall r v, In (r, v) (st_cache st) ->
      fst r <= snd r /\ snd r <= length remote /\ v = slice remote (fst r) (snd r)) ->
  (forall t p, In (t, p) (st_pend st) -> req_range remote (p_start p) (p_ln p) = Some (p_rq p)) ->
  match a with
  | ASet start ln v _ _ => forall rq, req_range remote start ln = Some rq -> length v = snd rq - fst rq ->
                           v = slice remote (fst rq) (snd rq)
  | _ => True
  end ->
  (forall r v, In (r, v) (st_cache (fst (step remote st t a))) ->
      fst r <= snd r /\ snd r <= length remote /\ v = slice remote (fst r) (snd r)) /\
  (forall t' p, In (t', p) (st_pend (fst (step remote st t a))) ->
      req_range remote (p_start p) (p_ln p) = Some (p_rq p)).
Proof. exact (fun remote st t a H1 H2 Ht => step_SInv remote st t a (conj H1 H2) Ht). Qed.

(* (b) TRANSPARENCY, for every history x interleaving x choice: each completed GetRange(start, ln) returned
       exactly the bytes the remote holds there, or an error — and an error only when the read is not inside
       the file, or the remote fetch of that very GetRange failed, or its context was cancelled. *)
Theorem C17_transparent : forall remote, (Z.of_nat (length remote) < two63)%Z ->
  forall h : list (nat * action),
  Forall (fun ta => match snd ta with
                    | ASet start ln v _ _ => forall rq, req_range remote start ln = Some rq ->
                                             length v = snd rq - fst rq -> v = slice remote (fst rq) (snd rq)
                    | _ => True
                    end) h ->
  forall k t a start ln r,
    nth_error h k = Some (t, a) ->
    nth_error (snd (run remote init h)) k = Some (Some (EvGet start ln r)) ->
    int64 start -> int64 ln ->
    match r with
    | RBytes bs => remote_read remote start ln = Some bs
    | RErr => remote_read remote start ln = None
              \/ match a with AMiss false _ _ => True | _ => False end
              \/ match a with ALookup _ _ _ true => True | _ => False end
    end.
Proof. exact (fun remote Hf h Ht => proj2 (transparent remote Hf h Ht init (init_SInv remote))). Qed.

(* what is returned always has the requested length: nothing is ever padded or cut *)
Theorem C17_reply_has_requested_length : forall remote start ln bs,
  remote_read remote start ln = Some bs -> Z.of_nat (length bs) = ln.
Proof. exact remote_read_length. Qed.

(* (c) A FAILED FETCH IS NOT CACHED: the miss step with a failing remote returns an error and leaves the
       cache exactly as it was; more generally no GetRange that reports an error changes the cache. *)
Theorem C17_failed_fetch_not_cached : forall remote st t del cancel p,
  pending st t = Some p ->
  step remote st t (AMiss false del cancel) = (clear_pend st t, Some (EvGet (p_start p) (p_ln p) RErr)) /\
  st_cache (clear_pend st t) = st_cache st.
Proof. exact failed_fetch_not_cached. Qed.

Theorem C17_error_leaves_cache : forall remote st t a st' start ln,
  (forall r v, In (r, v) (st_cache st) ->
      fst r <= snd r /\ snd r <= length remote /\ v = slice remote (fst r) (snd r)) ->
  (forall t p, In (t, p) (st_pend st) -> req_range remote (p_start p) (p_ln p) = Some (p_rq p)) ->
  step remote st t a = (st', Some (EvGet start ln RErr)) -> st_cache st' = st_cache st.
Proof. exact (fun remote st t a st' start ln H1 H2 => error_leaves_cache remote st t a st' start ln (conj H1 H2)). Qed.

(* (d) READS REACHING PAST THE END (or negative, or overflowing int64) ARE REFUSED in every state, without
       touching the remote or the cache — never padded. *)
Theorem C17_past_eof_refused : forall remote, (Z.of_nat (length remote) < two63)%Z ->
  forall st t start ln pick cancel,
  int64 start -> int64 ln -> pending st t = None ->
  ~ (0 <= start /\ 0 <= ln /\ start + ln <= Z.of_nat (length remote))%Z ->
  step remote st t (ALookup start ln pick cancel) = (st, Some (EvGet start ln RErr)).
Proof. exact past_eof_refused. Qed.

(* every GetRange completes with exactly one reply (Lookup answers, or leaves a miss that Miss answers) *)
Theorem C17_get_completes : forall remote st t start ln pick c1 ok del c2,
  pending st t = None ->
  (exists r, step remote st t (ALookup start ln pick c1) = (st, Some (EvGet start ln r))) \/
  (exists st1 st2 r, step remote st t (ALookup start ln pick c1) = (st1, None) /\
                     step remote st1 t (AMiss ok del c2) = (st2, Some (EvGet start ln r)) /\ pending st2 t = None).
Proof. exact get_completes. Qed.

(* (e) the cache stays a map whose ranges never contain one another; hence, with a live context, the outcome
       of setRange does not depend on Go's random map iteration order. *)
Theorem C17_cache_is_antichain : forall remote st t a,
  (NoDup (map fst (st_cache st)) /\
   forall r1 r2, In r1 (map fst (st_cache st)) -> In r2 (map fst (st_cache st)) -> contains r1 r2 = true -> r1 = r2) ->
  (NoDup (map fst (st_cache (fst (step remote st t a)))) /\
   forall r1 r2, In r1 (map fst (st_cache (fst (step remote st t a)))) ->
                 In r2 (map fst (st_cache (fst (step remote st t a)))) -> contains r1 r2 = true -> r1 = r2).
Proof. exact step_Anti. Qed.

Theorem C17_setrange_order_independent : forall del1 del2 c rq v,
  (NoDup (map fst c) /\ forall r1 r2, In r1 (map fst c) -> In r2 (map fst c) -> contains r1 r2 = true -> r1 = r2) ->
  set_range del1 false c rq v = set_range del2 false c rq v.
Proof. exact (set_range_deterministic []). Qed.

(* (f) the acceptance predicate run on the implementation's observations (C17_Check.check):
       every history it accepts satisfies the property, and it accepts everything the model does. *)
Theorem C17_accepted_histories_are_transparent : forall remote, (Z.of_nat (length remote) < two63)%Z ->
  forall h pre, hist_ok remote pre h = true ->
  forall k start ln cancel fail fetched res post,
    nth_error h k = Some (OGet start ln cancel fail fetched res, post) ->
    int64 start -> int64 ln ->
    (forall r v, In (r, v) post -> fst r <= snd r /\ snd r <= length remote /\ v = slice remote (fst r) (snd r)) /\
    match res with
    | RBytes bs => remote_read remote start ln = Some bs
    | RErr => remote_read remote start ln = None \/ (fetched = true /\ fail = true) \/ cancel = true
    end.
Proof. exact accepted_transparent. Qed.

Theorem C17_model_get_accepted : forall remote c start ln pick cancel fail del fetched r c',
  (forall r v, In (r, v) c -> fst r <= snd r /\ snd r <= length remote /\ v = slice remote (fst r) (snd r)) ->
  model_get remote c start ln pick cancel fail del = (fetched, r, c') ->
  op_ok remote c (OGet start ln cancel fail fetched r, c') = true.
Proof. exact model_get_accepted. Qed.

Theorem C17_model_set_accepted : forall remote c start ln v del cancel ok c',
  (forall r v, In (r, v) c -> fst r <= snd r /\ snd r <= length remote /\ v = slice remote (fst r) (snd r)) ->
  (forall rq, req_range remote start ln = Some rq -> length v = snd rq - fst rq -> v = slice remote (fst rq) (snd rq)) ->
  model_set remote c start ln v del cancel = (ok, c') ->
  op_ok remote c (OSet start ln v cancel ok, c') = true.
Proof. exact model_set_accepted. Qed.

Theorem C17_model_del_accepted : forall remote c old aged cancel,
  (forall r v, In (r, v) c -> fst r <= snd r /\ snd r <= length remote /\ v = slice remote (fst r) (snd r)) ->
  op_ok remote c (ODel aged cancel, model_del remote c old) = true.
Proof. exact model_del_accepted. Qed.

(* ---------------- non-vacuity ---------------- *)
Definition ex_remote : list N := [10; 11; 12; 13; 14; 15]%N.
Definition nodel : range -> bool := fun _ => false.
(* three threads; two concurrent misses of the same range, a superset hit, a refused read past the end,
   a failed fetch (not cached) retried by another thread, subset replacement, expiry *)
Definition ex_hist : list (nat * action) :=
  [ (0, ALookup 1 3 0 false); (1, ALookup 1 3 0 false);          (* both miss: [1,4) pending twice *)
    (0, AMiss true nodel false); (1, AMiss true nodel false);    (* both fetch; the second insert is ignored *)
    (2, ALookup 2 1 7 false);                                    (* superset hit inside [1,4) *)
    (2, ALookup 4 3 0 false);                                    (* 4+3 > 6: refused *)
    (0, ALookup 0 6 0 false); (1, ALookup 0 6 0 false);          (* both miss *)
    (0, AMiss false nodel false);                                (* remote fails: error, nothing cached *)
    (1, AMiss true nodel false);                                 (* [0,6) cached, subset [1,4) dropped *)
    (2, ASet 2 2 [12; 13]%N nodel false);                        (* covered: ignored *)
    (0, ADeleteOld (fun _ => true));
    (0, AMiss true nodel false) ].                               (* disabled: no-op *)

Example C17_nonvacuous_history :
  Forall (fun ta => truthful ex_remote (snd ta)) ex_hist /\
  snd (run ex_remote init ex_hist) =
    [ None; None;
      Some (EvGet 1 3 (RBytes [11; 12; 13]%N)); Some (EvGet 1 3 (RBytes [11; 12; 13]%N));
      Some (EvGet 2 1 (RBytes [12]%N));
      Some (EvGet 4 3 RErr);
      None; None;
      Some (EvGet 0 6 RErr);
      Some (EvGet 0 6 (RBytes [10; 11; 12; 13; 14; 15]%N));
      Some (EvSet 2 2 true);
      None; None ] /\
  st_cache (fst (run ex_remote init (firstn 4 ex_hist))) = [((1, 4), [11; 12; 13]%N)] /\
  st_cache (fst (run ex_remote init (firstn 9 ex_hist))) = [((1, 4), [11; 12; 13]%N)] /\
  st_cache (fst (run ex_remote init (firstn 11 ex_hist))) = [((0, 6), [10; 11; 12; 13; 14; 15]%N)] /\
  st_cache (fst (run ex_remote init ex_hist)) = [].
Proof.
  split.
  - repeat constructor. cbn. intros rq H1 H2. vm_compute in H1. inversion H1; subst. reflexivity.
  - vm_compute. repeat split; reflexivity.
Qed.

(* the int64 check: a start+ln that wraps around is refused, and so is a negative length *)
Example C17_nonvacuous_wraparound :
  req_range ex_remote 1 9223372036854775807 = None /\ req_range ex_remote 3 (-1) = None /\
  req_range ex_remote 6 0 = Some (6, 6) /\ req_range ex_remote 0 6 = Some (0, 6) /\ req_range ex_remote 0 7 = None.
Proof. vm_compute. repeat split; reflexivity. Qed.

(* the checker accepts the model's own behaviour and rejects: wrong bytes, a cached failed fetch, a padded read *)
Example C17_nonvacuous_checker :
  check [ (ex_remote, [ (OGet 1 3 false false true (RBytes [11; 12; 13]%N), [((1, 4), [11; 12; 13]%N)]);
                        (OGet 2 1 false false false (RBytes [12]%N), [((1, 4), [11; 12; 13]%N)]);
                        (OGet 0 6 false true true RErr, [((1, 4), [11; 12; 13]%N)]);
                        (ODel [(1, 4)] false, []) ]);
          (ex_remote, [ (OGet 1 3 false false true (RBytes [11; 12; 13]%N), [((1, 4), [11; 12; 13]%N)]);
                        (OGet 2 1 false false false (RBytes [11]%N), [((1, 4), [11; 12; 13]%N)]) ]);
          (ex_remote, [ (OGet 0 2 false true true RErr, [((0, 2), [0; 0]%N)]) ]);
          (ex_remote, [ (OGet 4 3 false false true (RBytes [14; 15; 0]%N), []) ]) ] = [1; 2; 3] /\
  check_policy [ (ex_remote, [ (OGet 1 3 false false true (RBytes [11; 12; 13]%N), [((1, 4), [11; 12; 13]%N)]);
                               (OGet 0 6 false false true (RBytes [10; 11; 12; 13; 14; 15]%N),
                                [((0, 6), [10; 11; 12; 13; 14; 15]%N)]) ]) ] = [].
Proof. vm_compute. split; reflexivity. Qed.

(* THE TIE TO THE SOURCE for the range predicates: coq/Generated/RangePredsC17.v is (Range).contains, the argument
   checks of getRange / setRange and (Range).isValidFor, translated expression by expression from
   range-cache/range-cache.go by gen/c17.go on every check. They are the predicates of the model. *)
Theorem C17_translated_contains_is_the_models : forall r r2 : range,
  contains_c17 (Z.of_nat (fst r)) (Z.of_nat (snd r)) (Z.of_nat (fst r2)) (Z.of_nat (snd r2)) = contains r r2.
Proof. exact contains_is_model. Qed.
Theorem C17_translated_argument_check_is_the_models : forall start stop size,
  invalid_range_get_c17 start stop size = ((start <? 0) || (size <? stop) || (stop <? start))%Z /\
  invalid_range_set_c17 start stop size = ((start <? 0) || (size <? stop) || (stop <? start))%Z.
Proof. exact invalid_range_is_model. Qed.
Theorem C17_translated_is_valid_for_is_the_complement : forall r0 r1 size,
  is_valid_for_c17 r0 r1 size = negb (invalid_range_get_c17 r0 r1 size).
Proof. exact is_valid_for_is_complement. Qed.

Print Assumptions C17_translated_contains_is_the_models.
Print Assumptions C17_translated_argument_check_is_the_models.
Print Assumptions C17_translated_is_valid_for_is_the_complement.
Print Assumptions C17_spec_is_read_at.
Print Assumptions C17_invariant_initially.
Print Assumptions C17_invariant_preserved.
Print Assumptions C17_transparent.
Print Assumptions C17_reply_has_requested_length.
Print Assumptions C17_failed_fetch_not_cached.
Print Assumptions C17_error_leaves_cache.
Print Assumptions C17_past_eof_refused.
Print Assumptions C17_get_completes.
Print Assumptions C17_cache_is_antichain.
Print Assumptions C17_setrange_order_independent.
Print Assumptions C17_accepted_histories_are_transparent.
Print Assumptions C17_model_get_accepted.
Print Assumptions C17_model_set_accepted.
Print Assumptions C17_model_del_accepted.
