(* C13 — Truncated index or CAR files fail loudly instead of answering "not found".
   Only statements, `exact`, examples and Print Assumptions. Model: YF.C13_Trunc.
   A reader is a PROGRAM over a read oracle ([prog]: return an answer, fail, or issue a positioned read whose
   failure — a short read — aborts with a read error). The theorem is proved once for every such program, i.e.
   for every reader that only propagates read errors; the repository's readers are given as programs
   (compact index lookup = the byte-level model of C04; sig-exists; block-time exact-size read; CAR section
   fetch; address-index walk). The harness checks on the real code that no reader answers after a failed read. *)
From Coq Require Import List NArith.
Import ListNotations.
Require Import YF.Codec YF.ReadAt YF.CI YF.C13_Trunc YF.C04_Model YF.C05_Model YF.C06_LinkedLog YF.C06_Store YF.C13_Models YF.C13_SigExists.

(* For EVERY reader program, EVERY file and EVERY truncation offset: the truncated copy yields the result of the
   complete file, or a read error — never "not found", an empty result or a different value *)
Theorem C13_truncated_same_or_read_error : forall (A : Type) (p : prog A) (f : list N) (n : nat),
  run (read_at (firstn n f)) p = run (read_at f) p \/ run (read_at (firstn n f)) p = ReadError.
Proof. exact @truncated_same_or_read_error. Qed.

Theorem C13_truncated_never_other_answer : forall (A : Type) (p : prog A) (f : list N) (n : nat) (a b : A),
  run (read_at f) p = Answer a -> run (read_at (firstn n f)) p = Answer b -> a = b.
Proof. exact @truncated_never_other_answer. Qed.

(* more generally: monotone in the read oracle (partial downloads, sparse copies, ... not only prefixes) *)
Theorem C13_monotone_in_the_read_oracle : forall (A : Type) (p : prog A) rd rd' r,
  refines rd rd' -> run rd p = r -> r <> ReadError -> run rd' p = r.
Proof. exact @run_mono. Qed.

(* what is checked on the implementation's recorded reads: a failed read always ends in a read error *)
Theorem C13_failed_read_means_read_error : forall (A : Type) (p : prog A) rd,
  existsb (fun t => negb (snd t)) (trace rd p) = true <-> run rd p = ReadError.
Proof. exact @failed_read_means_read_error. Qed.

(* the compact-index reader program is exactly the byte-level lookup of the C04 model *)
Theorem C13_compact_index_program_is_the_model : forall hash bucket_of vs hdrlen nb (hdr file k : list N),
  length hdr = hdrlen ->
  run (read_at file) (ci_lookup hash bucket_of vs hdrlen nb k) =
  match CI.lookup hash bucket_of vs hdr nb file k with
  | Found v => Answer (Some v) | NotFound => Answer None | ReadErr => ReadError end.
Proof. exact ci_lookup_agrees. Qed.

(* The same statement on the byte-level READER MODELS that the correspondence checks of C04, C05 and C06 run
   against the Go readers on every check (so the tie to the code is theirs):
   compact index reader (Bucket.Lookup / loadEntry / unmarshalEntry with the uint8 stride) *)
Theorem C13_compact_index_reader_model : forall hash bucket_of evs hlen nb (file : list N) n k,
  lookup_at hash bucket_of evs hlen nb (firstn n file) k = lookup_at hash bucket_of evs hlen nb file k \/
  lookup_at hash bucket_of evs hlen nb (firstn n file) k = ReadErr.
Proof. exact c04_lookup_truncated. Qed.

(* signature-existence reader, both formats, opened over the truncated file: NewReader + Has *)
Theorem C13_sig_exists_reader_model : forall hash ver (f : list N) (n : nat) s,
  file_has hash ver (firstn n f) s = file_has hash ver f s \/ file_has hash ver (firstn n f) s = Err.
Proof. exact sigexists_truncated. Qed.
Theorem C13_sig_exists_never_absent : forall hash ver (f : list N) (n : nat) s,
  file_has hash ver f s = Ok true -> file_has hash ver (firstn n f) s <> Ok false.
Proof. exact sigexists_truncated_never_absent. Qed.

(* linked log of the address index: ReadWithSize, and the walk along the previous pointers (GsfaReader.Get):
   the truncated log yields the complete log's list or a failure, never a shorter list *)
Theorem C13_linked_log_record_model : forall decompress (file : list N) n off size r,
  read_with_size decompress (firstn n file) off size = Some r -> read_with_size decompress file off size = Some r.
Proof. exact c06_read_with_size_truncated. Qed.
Theorem C13_linked_log_walk_model : forall decompress fuel (file : list N) n p es,
  bwalk decompress fuel (firstn n file) p = Some es -> bwalk decompress fuel file p = Some es.
Proof. exact c06_walk_truncated. Qed.

(* non-vacuity: a two-read program on a 4-byte file, cut after 3 bytes *)
Example C13_nonvacuous :
  let p := Read 0 2 (fun a => Read 2 2 (fun b => Ret (a ++ b))) in
  run (read_at [1; 2; 3; 4]%N) p = Answer [1; 2; 3; 4]%N /\ run (read_at (firstn 3 [1; 2; 3; 4]%N)) p = ReadError.
Proof. split; vm_compute; reflexivity. Qed.

(* non-vacuity on the signature-existence model: a sealed legacy file with three signatures; cut by one byte, the
   signature whose bucket entry lies at the end fails, the others still answer; cut inside the header, all fail *)
Example C13_sig_exists_nonvacuous :
  let h := fun s : list N => (nth 2 s 0 * 1000003 + 7)%N in
  let sg := fun a : N => [1; 2; a]%N ++ repeat 5%N 61 in
  let f := match seal V1 [] (puts h [sg 9; sg 4; sg 200]%N) with Ok f => f | _ => [] end in
  length f = 74 /\ file_has h V1 f (sg 200%N) = Ok true /\ file_has h V1 f (sg 5%N) = Ok false /\
  file_has h V1 (firstn 73 f) (sg 200%N) = Err /\ file_has h V1 (firstn 73 f) (sg 9%N) = Ok true /\
  file_has h V1 (firstn 20 f) (sg 4%N) = Err.
Proof. vm_compute. repeat split; reflexivity. Qed.

Print Assumptions C13_truncated_same_or_read_error.
Print Assumptions C13_truncated_never_other_answer.
Print Assumptions C13_monotone_in_the_read_oracle.
Print Assumptions C13_failed_read_means_read_error.
Print Assumptions C13_compact_index_program_is_the_model.
Print Assumptions C13_compact_index_reader_model.
Print Assumptions C13_sig_exists_reader_model.
Print Assumptions C13_sig_exists_never_absent.
Print Assumptions C13_linked_log_record_model.
Print Assumptions C13_linked_log_walk_model.

(* ================================================================ the entry loader itself, TRANSLATED
   compactindexsized (Bucket).loadEntry and (BucketDescriptor).unmarshalEntry are re-translated from /repo's working
   tree on every check (Generated/GoLiteC13.v; DESIGN.md section 10a).  For EVERY positioned reader of the bucket's
   entries (an oracle [rd off len] giving the bytes delivered — at most len — and the error value): a complete read
   yields exactly the entry decoded from those bytes, and a read that delivers fewer bytes than the stride yields
   the reader's error and never an entry — the code-level form of "a short read is an error, not 'not found'". *)
Require YF.GoLite YF.Generated.GoLiteC13 YF.GoLiteC13_Load.
Import ZArith String.

Theorem C13_translated_loadEntry_complete_or_readers_error :
  forall (rd : Z -> Z -> list Z * GoLite.val), (forall off len, (0 <= len)%Z -> (GoLite.zlen (fst (rd off len)) <= len)%Z) ->
  forall fuel hl stride ow rest entries (i : Z),
  (0 <= hl)%Z -> (0 <= ow)%Z -> (hl + ow <= stride)%Z -> (stride <= 255)%Z -> (0 <= i < 36028797018963968)%Z -> 2 <= fuel ->
  GoLite.call GoLiteC13.prog (GoLiteC13_Load.ext_sr rd) fuel "Bucket.loadEntry"%string
    [GoLiteC13_Load.bucket_val hl stride ow rest entries; GoLite.VInt i] =
  let '(bs, e) := rd (i * stride)%Z stride in
  if (GoLite.zlen bs =? stride)%Z
  then GoLite.RRet (GoLite.VTuple [GoLiteC13_Load.entry_val (GoLite.le_value (firstn 8 (GoLite.slice_z bs 0 hl)))
                                                           (GoLite.slice_z bs hl (hl + ow)); GoLite.VNil])
  else GoLite.RRet (GoLite.VTuple [GoLiteC13_Load.entry_val 0%Z []; e]).
Proof.
  exact (GoLiteC13_Load.loadEntry_spec GoLiteC13.prog GoLiteC13.prog_uintLe GoLiteC13.prog_BucketDescriptor_unmarshalEntry
           GoLiteC13.prog_Bucket_loadEntry).
Qed.

(* non-vacuity: the translated loader RUNS in the kernel over a 2-entry bucket (stride 5 = 3 hash bytes + 2 value
   bytes): entry 1 is decoded, entry 2 lies beyond the (truncated) data and yields the reader's error *)
Example C13_translated_loadEntry_runs :
  let data := [1; 0; 0; 10; 11; 2; 0; 0; 20; 21; 3; 0]%Z in
  let rd := fun off len : Z => let bs := firstn (Z.to_nat len) (skipn (Z.to_nat off) data) in
                               (bs, if (GoLite.zlen bs <? len)%Z then GoLite.VErr "io.EOF"%string else GoLite.VNil) in
  GoLite.call GoLiteC13.prog (GoLiteC13_Load.ext_sr rd) 3 "Bucket.loadEntry"%string
    [GoLiteC13_Load.bucket_val 3 5 2 [] GoLite.VNil; GoLite.VInt 1%Z]
  = GoLite.RRet (GoLite.VTuple [GoLiteC13_Load.entry_val 2%Z [20; 21]%Z; GoLite.VNil]) /\
  GoLite.call GoLiteC13.prog (GoLiteC13_Load.ext_sr rd) 3 "Bucket.loadEntry"%string
    [GoLiteC13_Load.bucket_val 3 5 2 [] GoLite.VNil; GoLite.VInt 2%Z]
  = GoLite.RRet (GoLite.VTuple [GoLiteC13_Load.entry_val 0%Z []; GoLite.VErr "io.EOF"%string]).
Proof. vm_compute. split; reflexivity. Qed.

Print Assumptions C13_translated_loadEntry_complete_or_readers_error.

(* the bucket-header reader, translated likewise ((BucketHeader).readFrom, Load, bucketOffset): for EVERY positioned
   reader, a complete 16-byte read at headerSize + 16*i is decoded field by field (domain, entry count, hash length,
   6-byte file offset, little endian); fewer than 16 bytes yield the reader's error and leave the header untouched *)
Require YF.GoLiteC13_Header.

Theorem C13_translated_bucket_header_complete_or_readers_error :
  forall (rd : Z -> Z -> list Z * GoLite.val), (forall off len, (0 <= len)%Z -> (GoLite.zlen (fst (rd off len)) <= len)%Z) ->
  forall fuel dom ne hl fo hs rdv (i : Z),
  (0 <= hs < 4611686018427387904)%Z -> (0 <= i < 4294967296)%Z -> 2 <= fuel ->
  GoLite.call GoLiteC13.prog (GoLiteC13_Header.ext_ra rd) fuel "BucketHeader.readFrom"%string
    [GoLiteC13_Header.hdr_val dom ne hl fo hs; rdv; GoLite.VInt i] =
  let '(bs, e) := rd (hs + i * 16)%Z 16%Z in
  if (GoLite.zlen bs <? 16)%Z then GoLite.RRet (GoLite.VTuple [e; GoLiteC13_Header.hdr_val dom ne hl fo hs])
  else GoLite.RRet (GoLite.VTuple [GoLite.VNil; GoLiteC13_Header.hdr_of_bytes bs hs]).
Proof.
  exact (GoLiteC13_Header.readFrom_spec GoLiteC13.prog GoLiteC13.prog_uintLe GoLiteC13.prog_bucketOffset
           GoLiteC13.prog_BucketHeader_Load GoLiteC13.prog_BucketHeader_readFrom).
Qed.

Print Assumptions C13_translated_bucket_header_complete_or_readers_error.

(* the positioned-read helpers of the sig-exists readers and of the CAR section reader (readFullAt of bucketteer/read.go,
   deprecated/bucketteer/read.go and storage.go — the repairs 19fd07a and f06ca95 — and readUint64Le), translated likewise:
   for EVERY reader (any byte count, any error value, io.EOF with a complete read included)
     - readFullAt succeeds exactly when the read was complete; on a short read its error is the reader's, or
       io.ErrUnexpectedEOF when the reader gave none — never nil;
     - readUint64Le returns the little-endian value of the 8 bytes read or that error — never a value made from a
       partly filled buffer.
   The three packages' readFullAt translate to the same term (checked by reflexivity below), so one proof serves all. *)
Require YF.Generated.GoLiteRdC05 YF.Generated.GoLiteRdLC05 YF.Generated.GoLiteRdMain YF.GoLiteRd_ReadFull.

Lemma C13_readFullAt_same_in_all_packages :
  GoLiteRdLC05.fn_readFullAt = GoLiteRdC05.fn_readFullAt /\ GoLiteRdMain.fn_readFullAt = GoLiteRdC05.fn_readFullAt /\
  GoLiteRdLC05.fn_readUint64Le = GoLiteRdC05.fn_readUint64Le.
Proof. repeat split; reflexivity. Qed.

Theorem C13_translated_readFullAt_complete_or_error :
  forall prog, In prog [GoLiteRdC05.prog; GoLiteRdLC05.prog; GoLiteRdMain.prog] ->
  forall (rd : Z -> Z -> list Z * GoLite.val), (forall off len, GoLiteRd_ReadFull.is_err (snd (rd off len))) ->
  forall fuel rdv (buf : list Z) (off : Z),
  GoLite.call prog (GoLiteRd_ReadFull.ext_ra rd) fuel "readFullAt"%string [rdv; GoLite.VInts buf; GoLite.VInt off] =
  let '(bs, e) := rd off (GoLite.zlen buf) in
  if (GoLite.zlen bs =? GoLite.zlen buf)%Z
  then GoLite.RRet (GoLite.VTuple [GoLite.VNil; GoLite.VInts (GoLite.blit buf O bs)])
  else GoLite.RRet (GoLite.VTuple [GoLiteRd_ReadFull.short_err e; GoLite.VInts (GoLite.blit buf O bs)]).
Proof.
  intros prog [<-|[<-|[<-|[]]]] rd Hrd.
  - exact (GoLiteRd_ReadFull.readFullAt_spec GoLiteRdC05.prog GoLiteRdC05.prog_readFullAt rd Hrd).
  - exact (GoLiteRd_ReadFull.readFullAt_spec GoLiteRdLC05.prog GoLiteRdLC05.prog_readFullAt rd Hrd).
  - exact (GoLiteRd_ReadFull.readFullAt_spec GoLiteRdMain.prog GoLiteRdMain.prog_readFullAt rd Hrd).
Qed.

Theorem C13_translated_readFullAt_short_read_is_never_a_success :
  forall prog, In prog [GoLiteRdC05.prog; GoLiteRdLC05.prog; GoLiteRdMain.prog] ->
  forall (rd : Z -> Z -> list Z * GoLite.val), (forall off len, GoLiteRd_ReadFull.is_err (snd (rd off len))) ->
  forall fuel rdv (buf : list Z) (off : Z),
  (exists out, GoLite.call prog (GoLiteRd_ReadFull.ext_ra rd) fuel "readFullAt"%string [rdv; GoLite.VInts buf; GoLite.VInt off]
               = GoLite.RRet (GoLite.VTuple [GoLite.VNil; out])) <->
  GoLite.zlen (fst (rd off (GoLite.zlen buf))) = GoLite.zlen buf.
Proof.
  intros prog [<-|[<-|[<-|[]]]] rd Hrd.
  - exact (GoLiteRd_ReadFull.readFullAt_success_iff_complete GoLiteRdC05.prog GoLiteRdC05.prog_readFullAt rd Hrd).
  - exact (GoLiteRd_ReadFull.readFullAt_success_iff_complete GoLiteRdLC05.prog GoLiteRdLC05.prog_readFullAt rd Hrd).
  - exact (GoLiteRd_ReadFull.readFullAt_success_iff_complete GoLiteRdMain.prog GoLiteRdMain.prog_readFullAt rd Hrd).
Qed.

Theorem C13_translated_readUint64Le_value_or_error :
  forall prog, In prog [GoLiteRdC05.prog; GoLiteRdLC05.prog] ->
  forall (rd : Z -> Z -> list Z * GoLite.val), (forall off len, GoLiteRd_ReadFull.is_err (snd (rd off len))) ->
  forall fuel rdv (pos : Z), 1 <= fuel ->
  GoLite.call prog (GoLiteRd_ReadFull.ext_ra rd) fuel "readUint64Le"%string [rdv; GoLite.VInt pos] =
  let '(bs, e) := rd pos 8%Z in
  if (GoLite.zlen bs =? 8)%Z
  then GoLite.RRet (GoLite.VTuple [GoLite.VInt (GoLite.le_value bs); GoLite.VNil])
  else GoLite.RRet (GoLite.VTuple [GoLite.VInt 0%Z; GoLiteRd_ReadFull.short_err e]).
Proof.
  intros prog [<-|[<-|[]]] rd Hrd.
  - exact (GoLiteRd_ReadFull.readUint64Le_spec GoLiteRdC05.prog GoLiteRdC05.prog_readFullAt GoLiteRdC05.prog_readUint64Le rd Hrd).
  - exact (GoLiteRd_ReadFull.readUint64Le_spec GoLiteRdLC05.prog GoLiteRdLC05.prog_readFullAt GoLiteRdLC05.prog_readUint64Le rd Hrd).
Qed.

(* the translated helpers RUN: a complete read that comes with io.EOF is a success; 7 of 8 bytes with a nil error is
   io.ErrUnexpectedEOF; 7 of 8 bytes with io.EOF is io.EOF *)
Example C13_translated_read_helpers_run :
  let full := fun (_ _ : Z) => ([1; 2; 3; 4; 5; 6; 7; 8]%Z, GoLite.VErr "io.EOF"%string) in
  let short_nil := fun (_ _ : Z) => ([1; 2; 3; 4; 5; 6; 7]%Z, GoLite.VNil) in
  let short_eof := fun (_ _ : Z) => ([1; 2; 3; 4; 5; 6; 7]%Z, GoLite.VErr "io.EOF"%string) in
  GoLite.call GoLiteRdC05.prog (GoLiteRd_ReadFull.ext_ra full) 1 "readUint64Le"%string [GoLite.VNil; GoLite.VInt 40%Z]
    = GoLite.RRet (GoLite.VTuple [GoLite.VInt 578437695752307201%Z; GoLite.VNil]) /\
  GoLite.call GoLiteRdC05.prog (GoLiteRd_ReadFull.ext_ra short_nil) 1 "readUint64Le"%string [GoLite.VNil; GoLite.VInt 40%Z]
    = GoLite.RRet (GoLite.VTuple [GoLite.VInt 0%Z; GoLite.VErr "io.ErrUnexpectedEOF"%string]) /\
  GoLite.call GoLiteRdMain.prog (GoLiteRd_ReadFull.ext_ra short_eof) 0 "readFullAt"%string
      [GoLite.VNil; GoLite.VInts [0; 0; 0; 0; 0; 0; 0; 0]%Z; GoLite.VInt 40%Z]
    = GoLite.RRet (GoLite.VTuple [GoLite.VErr "io.EOF"%string; GoLite.VInts [1; 2; 3; 4; 5; 6; 7; 0]%Z]).
Proof. vm_compute. repeat split; reflexivity. Qed.

Print Assumptions C13_translated_readFullAt_complete_or_error.
Print Assumptions C13_translated_readFullAt_short_read_is_never_a_success.
Print Assumptions C13_translated_readUint64Le_value_or_error.

(* ReadAllFromReaderAt (epoch.go) — the exact-size read with which NewEpochFromConfig loads the block-time table from any
   index storage — translated likewise: over EVERY reader (any count, any error value) a buffer comes back only for a
   complete read without error and then holds exactly the bytes read; every short read and every error is an error *)
Require YF.GoLiteRd_ReadAll.
Theorem C13_translated_ReadAllFromReaderAt_complete_or_error :
  forall (rd : Z -> Z -> list Z * GoLite.val), (forall off len, GoLiteRd_ReadFull.is_err (snd (rd off len))) ->
  (forall off len, (0 <= len)%Z -> (GoLite.zlen (fst (rd off len)) <= len)%Z) ->
  forall fuel rdv (size : Z) out, (0 <= size < 4611686018427387904)%Z ->
  GoLite.call GoLiteRdMain.prog (GoLiteRd_ReadFull.ext_ra rd) fuel "ReadAllFromReaderAt"%string [rdv; GoLite.VInt size]
    = GoLite.RRet (GoLite.VTuple [GoLite.VInts out; GoLite.VNil]) ->
  snd (rd 0%Z size) = GoLite.VNil /\ GoLite.zlen (fst (rd 0%Z size)) = size /\ out = fst (rd 0%Z size).
Proof. exact (GoLiteRd_ReadAll.ReadAll_success GoLiteRdMain.prog GoLiteRdMain.prog_ReadAllFromReaderAt). Qed.

Example C13_translated_ReadAllFromReaderAt_runs :
  let full := fun (_ _ : Z) => ([1; 2; 3]%Z, GoLite.VNil) in
  let short := fun (_ _ : Z) => ([1; 2]%Z, GoLite.VNil) in
  let eof := fun (_ _ : Z) => ([1; 2]%Z, GoLite.VErr "io.EOF"%string) in
  GoLite.call GoLiteRdMain.prog (GoLiteRd_ReadFull.ext_ra full) 0 "ReadAllFromReaderAt"%string [GoLite.VNil; GoLite.VInt 3%Z]
    = GoLite.RRet (GoLite.VTuple [GoLite.VInts [1; 2; 3]%Z; GoLite.VNil]) /\
  GoLite.call GoLiteRdMain.prog (GoLiteRd_ReadFull.ext_ra short) 0 "ReadAllFromReaderAt"%string [GoLite.VNil; GoLite.VInt 3%Z]
    = GoLite.RRet (GoLite.VTuple [GoLite.VInts []; GoLite.VErr "fmt.Errorf"%string]) /\
  GoLite.call GoLiteRdMain.prog (GoLiteRd_ReadFull.ext_ra eof) 0 "ReadAllFromReaderAt"%string [GoLite.VNil; GoLite.VInt 3%Z]
    = GoLite.RRet (GoLite.VTuple [GoLite.VInts []; GoLite.VErr "%w io.EOF"%string]).
Proof. vm_compute. repeat split; reflexivity. Qed.

Print Assumptions C13_translated_ReadAllFromReaderAt_complete_or_error.
