(* C14 - Multi-frame payloads reassemble to the original bytes or are rejected.
   Only statements, `exact`, non-vacuity examples and Print Assumptions live here.

   Model (C14_Frames.v): tooling/data-frames.go WITH the repair fixes/C14-cyclic-next-links.diff
   (a set of CIDs already reached; meeting one again is an error).  [srt] is ANY function returning a
   sorted permutation w.r.t. the comparator of the Go code (sort.Slice is not stable); [isort] is the
   executable instance.  [load_auto srt sl f0] = LoadDataFromDataFrames on first frame f0 with a getter
   backed by the finite store sl; [load srt st fuel f0] the same over an arbitrary `cid -> option frame`
   with recursion depth bounded by fuel.  CIDs are opaque numbers: nothing relates a CID to the
   content stored under it (the getters of the repository do not check that either).

   What cannot be proved, stated openly: a 64-bit checksum cannot exclude every altered payload.
   [C14_wrong_bytes_need_collision] is the strongest true statement: an accepted payload that differs
   from the written one collides with it under CRC64-ISO or FNV-1a (VerifyHash accepts either; so an
   altered payload is also accepted when its FNV-1a equals the recorded CRC64, and vice versa). *)
From Coq Require Import List Arith NArith ZArith Permutation Sorting.Sorted.
Import ListNotations.
Require Import YF.C14_Hash YF.C14_Frames YF.C14_Term YF.C14_Layout YF.C14_Check.

(* ---- (1) round trip: every payload chunking, frame count >= 1, fan-out >= 1, injective CID
   assignment, recorded checksum CRC64 or legacy FNV (or none), every finite store that contains the
   frames - in any order, with any other frames beside them ---- *)
Theorem C14_roundtrip : forall (srt : list frame -> list frame),
  (forall l, Permutation (srt l) l) -> (forall l, fsorted (srt l)) ->
  forall (cidof : nat -> cid) (chunks : list (list N)) (k : nat) (hsh : option N),
  1 <= k -> 1 <= length chunks ->
  (forall i j, i < length chunks -> j < length chunks -> cidof i = cidof j -> i = j) ->
  forall sl : list (cid * frame),
  (forall i, 1 <= i < length chunks -> lookup sl (cidof i) = Some (wframe cidof chunks k hsh i)) ->
  match hsh with None => True | Some h => crc64 (concat chunks) = h \/ fnv1a (concat chunks) = h end ->
  load_auto srt sl (wframe cidof chunks k hsh 0) = Ok (concat chunks).
Proof. exact layout_roundtrip_auto. Qed.

(* the same for `split fanout nframes d`: d cut into nframes equal chunks *)
Theorem C14_roundtrip_split : forall (srt : list frame -> list frame),
  (forall l, Permutation (srt l) l) -> (forall l, fsorted (srt l)) ->
  forall (cidof : nat -> cid) (d : list N) (nframes k : nat) (use_fnv : bool),
  1 <= k -> 1 <= nframes ->
  (forall i j, i < nframes -> j < nframes -> cidof i = cidof j -> i = j) ->
  let h := Some (if use_fnv then fnv1a d else crc64 d) in
  load_auto srt (wstore cidof (chunk_even nframes d) k h) (wframe cidof (chunk_even nframes d) k h 0) = Ok d.
Proof. exact roundtrip_split. Qed.

(* ---- (2) ANY link structure (any tree of `next` links with pairwise distinct CIDs, any fan-out, any
   order of the links) whose frames are exactly chunks 0..n-1 is collected into frames 0..n-1 ---- *)
Theorem C14_reassemble_any_tree : forall (srt : list frame -> list frame) (st : cid -> option frame),
  (forall l, Permutation (srt l) l) -> (forall l, fsorted (srt l)) ->
  forall (t : ltree) (ideal : list frame) (chunks : list (list N)) (fuel : nat),
  realises st t -> NoDup (tcids t) -> tdepth t <= fuel ->
  map idx ideal = map Z.of_nat (seq 0 (length chunks)) -> map f_data ideal = chunks ->
  Forall (fun f => f_index f <> None) ideal ->
  Permutation (tflat t) ideal ->
  exists seen', collect srt st fuel [] (root t) = Ok (seen', ideal) /\
                payload ideal = concat chunks /\ length ideal = length chunks.
Proof. exact reassemble_any_tree. Qed.

(* ---- (3) the order in which frames are stored is irrelevant ---- *)
Theorem C14_store_order_irrelevant : forall srt (sl sl' : list (cid * frame)) f0,
  NoDup (map fst sl) -> Permutation sl sl' -> load_auto srt sl' f0 = load_auto srt sl f0.
Proof. exact store_order_irrelevant. Qed.

(* ---- (4) what acceptance means: the frames used are the first frame plus the frames of pairwise
   distinct CIDs [new], every one of them reachable, each linked exactly once by the frames used; with
   `total` present their number equals it; with `hash` present the bytes returned have that CRC64-ISO
   or FNV-1a sum ---- *)
Theorem C14_accept_char : forall (srt : list frame -> list frame) (st : cid -> option frame),
  (forall l, Permutation (srt l) l) -> (forall l, fsorted (srt l)) ->
  forall fuel f0 d', load srt st fuel f0 = Ok d' ->
  exists (new : list cid) (gs fs : list frame),
    (NoDup new /\ Forall2 (fun c g => st c = Some g) new gs /\ Permutation fs (f0 :: gs) /\
     Permutation (flat_map f_next (f0 :: gs)) new /\ Forall (reach st f0) new /\
     (f_next f0 <> [] -> fsorted fs) /\ (f_next f0 = [] -> fs = [f0])) /\
    d' = flat_map f_data fs /\
    (forall n, f_total f0 = Some n -> Z.of_nat (length fs) = n) /\
    (forall h, f_hash f0 = Some h -> crc64 d' = h \/ fnv1a d' = h).
Proof. exact load_ok_char. Qed.

(* ---- (5) single-frame faults on the writer layout are errors (total present, as the writer records it).
   (a) frame j missing from the store; (b) a frame lists a CID twice (frame duplicated by linking it
   twice); (c) the link to frame j dropped from its parent p ---- *)
Theorem C14_drop_dup_rejected : forall (srt : list frame -> list frame),
  (forall l, Permutation (srt l) l) -> (forall l, fsorted (srt l)) ->
  forall (cidof : nat -> cid) (chunks : list (list N)) (k : nat) (hsh : option N),
  1 <= k -> 1 <= length chunks ->
  (forall i j, i < length chunks -> j < length chunks -> cidof i = cidof j -> i = j) ->
  let n := length chunks in
  let W := wframe cidof chunks k hsh in
  (* (a) *)
  (forall sl j, 1 <= j < n ->
     (forall i, 1 <= i < n -> i <> j -> lookup sl (cidof i) = Some (W i)) -> lookup sl (cidof j) = None ->
     exists e, load_auto srt sl (W 0) = Err e) /\
  (* (b) *)
  (forall sl p g f0, p < n -> ~ NoDup (f_next g) ->
     (forall i, 1 <= i < p -> lookup sl (cidof i) = Some (W i)) ->
     (p = 0 -> f0 = g) -> (1 <= p -> f0 = W 0 /\ lookup sl (cidof p) = Some g) ->
     exists e, load_auto srt sl f0 = Err e) /\
  (* (c) *)
  (forall sl p j g f0, p < n -> 1 <= j < n -> In (cidof j) (f_next (W p)) ->
     g = mkF hsh (Some (Z.of_nat p)) (Some (Z.of_nat n)) (nth p chunks [])
             (remove N.eq_dec (cidof j) (f_next (W p))) ->
     (forall i, 1 <= i < n -> i <> p -> lookup sl (cidof i) = Some (W i)) ->
     (p = 0 -> f0 = g) -> (1 <= p -> f0 = W 0 /\ lookup sl (cidof p) = Some g) ->
     exists e, load_auto srt sl f0 = Err e).
Proof. exact drop_dup_rejected. Qed.

(* the same three facts for ANY first frame and store (no layout assumed) *)
Theorem C14_missing_frame_rejected : forall (srt : list frame -> list frame) (st : cid -> option frame),
  (forall l, Permutation (srt l) l) -> (forall l, fsorted (srt l)) ->
  forall fuel f0 c, reach st f0 c -> st c = None -> forall d, load srt st fuel f0 <> Ok d.
Proof. exact missing_rejected. Qed.
Theorem C14_linked_twice_rejected : forall (srt : list frame -> list frame) (st : cid -> option frame),
  (forall l, Permutation (srt l) l) -> (forall l, fsorted (srt l)) ->
  forall fuel f0 g, (g = f0 \/ exists c, reach st f0 c /\ st c = Some g) -> ~ NoDup (f_next g) ->
  forall d, load srt st fuel f0 <> Ok d.
Proof. exact dup_link_rejected. Qed.
Theorem C14_count_char : forall (srt : list frame -> list frame) (st : cid -> option frame),
  (forall l, Permutation (srt l) l) -> (forall l, fsorted (srt l)) ->
  forall fuel f0 d n, load srt st fuel f0 = Ok d -> f_total f0 = Some n ->
  exists new, NoDup new /\ (forall c, In c new <-> reach st f0 c) /\ Z.of_nat (S (length new)) = n.
Proof. exact count_char. Qed.

(* ---- (6) altered / mixed frames: whatever was done to the store and the links, a returned payload
   that differs from the written one is a checksum collision ---- *)
Theorem C14_wrong_bytes_need_collision : forall srt (st : cid -> option frame) fuel f0 (d d' : list N) h,
  f_hash f0 = Some h -> (crc64 d = h \/ fnv1a d = h) ->
  load srt st fuel f0 = Ok d' -> d' <> d ->
  (crc64 d' = crc64 d \/ fnv1a d' = crc64 d \/ crc64 d' = fnv1a d \/ fnv1a d' = fnv1a d).
Proof. exact wrong_bytes_need_collision. Qed.

(* ---- (7) termination.  The repaired code never exhausts fuel `S (length store)`: it returns on every
   finite store, cyclic links included.  The pinned code (no set of reached CIDs) returns the same
   frames on every link tree, and on a frame whose link resolves to itself it never returns, whatever
   the fuel (in Go: stack overflow, the process dies). ---- *)
Theorem C14_terminates : forall srt (sl : list (cid * frame)) f0, load_auto srt sl f0 <> OutOfFuel.
Proof. exact load_auto_total. Qed.
Theorem C14_repair_preserves_trees : forall srt (st : cid -> option frame) t fuel,
  realises st t -> NoDup (tcids t) -> tdepth t <= fuel ->
  collect_pinned srt st fuel (root t) = Ok (tcollect srt t) /\
  exists seen', collect srt st fuel [] (root t) = Ok (seen', tcollect srt t).
Proof. exact repair_preserves_trees. Qed.
Theorem C14_pinned_cycle_never_returns : forall srt fuel,
  collect_pinned srt self_store fuel self_frame = OutOfFuel.
Proof. exact pinned_cycle_never_returns. Qed.

(* ---- (8) the executable sort is an instance of [srt] ---- *)
Theorem C14_isort_is_a_sort : (forall l, Permutation (isort l) l) /\ (forall l, fsorted (isort l)).
Proof. exact (conj isort_perm isort_sorted). Qed.

(* ---- non-vacuity ---- *)
(* the example of the schema comment: 10 frames, fan-out 5 (0 -> 1..5, 5 -> 6..9), CRC64 recorded *)
Definition ex_d : list N := map N.of_nat (seq 1 23).
Definition ex_chunks := chunk_even 10 ex_d.
Definition ex_cid (i : nat) : cid := (100 + N.of_nat i)%N.
Definition ex_W := wframe ex_cid ex_chunks 5 (Some (crc64 ex_d)).
Definition ex_store := wstore ex_cid ex_chunks 5 (Some (crc64 ex_d)).
Example C14_nonvacuous_layout :
  f_next (ex_W 0) = [101; 102; 103; 104; 105]%N /\ f_next (ex_W 5) = [106; 107; 108; 109]%N /\
  f_next (ex_W 3) = [] /\ length ex_store = 9.
Proof. vm_compute. repeat split. Qed.
Example C14_nonvacuous_roundtrip :
  load_auto isort ex_store (ex_W 0) = Ok ex_d /\ load_auto isort (rev ex_store) (ex_W 0) = Ok ex_d.
Proof. split; vm_compute; reflexivity. Qed.
Example C14_nonvacuous_faults :
  (* frame 7 missing *)
  load_auto isort (filter (fun cf => negb (N.eqb (fst cf) 107)) ex_store) (ex_W 0) = Err EMissing /\
  (* frame 3 linked twice from frame 0 *)
  load_auto isort ex_store (mkF (f_hash (ex_W 0)) (Some 0%Z) (Some 10%Z) (f_data (ex_W 0)) [101;102;103;103;104;105]%N) = Err EDupLink /\
  (* link to frame 3 dropped from frame 0 *)
  load_auto isort ex_store (mkF (f_hash (ex_W 0)) (Some 0%Z) (Some 10%Z) (f_data (ex_W 0)) [101;102;104;105]%N) = Err ECount /\
  (* frame 2 stored under the CID of frame 4 as well (duplicate replacing a frame): checksum *)
  load_auto isort (map (fun cf => if N.eqb (fst cf) 104 then (104%N, ex_W 2) else cf) ex_store) (ex_W 0) = Err EHash /\
  (* frame 0 stored under the CID of frame 5: a cycle *)
  load_auto isort (map (fun cf => if N.eqb (fst cf) 105 then (105%N, ex_W 0) else cf) ex_store) (ex_W 0) = Err EDupLink.
Proof. repeat split; vm_compute; reflexivity. Qed.

Print Assumptions C14_roundtrip.
Print Assumptions C14_roundtrip_split.
Print Assumptions C14_reassemble_any_tree.
Print Assumptions C14_store_order_irrelevant.
Print Assumptions C14_accept_char.
Print Assumptions C14_drop_dup_rejected.
Print Assumptions C14_missing_frame_rejected.
Print Assumptions C14_linked_twice_rejected.
Print Assumptions C14_count_char.
Print Assumptions C14_wrong_bytes_need_collision.
Print Assumptions C14_terminates.
Print Assumptions C14_repair_preserves_trees.
Print Assumptions C14_pinned_cycle_never_returns.
Print Assumptions C14_isort_is_a_sort.

(* ================================================================ VerifyHash itself, TRANSLATED
   ipld/ipldbindcode/methods.go:VerifyHash is re-translated from /repo's working tree on every check
   (Generated/GoLiteC14.v; DESIGN.md section 10a) and is the model's verify_hash, with the two checksum functions as
   oracles equal to the model's crc64 / fnv1a: nil exactly when one of the two checksums is the recorded hash. *)
Require YF.GoLite YF.Generated.GoLiteC14 YF.GoLiteC14_Verify.
Import ZArith String.

Theorem C14_translated_VerifyHash_is_verify_hash : forall fuel (d : list Z) (h : N),
  GoLite.call GoLiteC14.prog GoLiteC14_Verify.hash_ext fuel "VerifyHash"%string [GoLite.VInts d; GoLite.VInt (Z.of_N h)] =
  GoLite.RRet (if verify_hash (map Z.to_N d) h then GoLite.VNil else GoLite.VErr "fmt.Errorf"%string).
Proof. exact (GoLiteC14_Verify.VerifyHash_is_verify_hash GoLiteC14.prog GoLiteC14.prog_VerifyHash). Qed.

Example C14_translated_VerifyHash_runs :
  GoLite.call GoLiteC14.prog GoLiteC14_Verify.hash_ext 1 "VerifyHash"%string
    [GoLite.VInts [1; 2; 3]%Z; GoLite.VInt (Z.of_N (crc64 [1; 2; 3]%N))] = GoLite.RRet GoLite.VNil /\
  GoLite.call GoLiteC14.prog GoLiteC14_Verify.hash_ext 1 "VerifyHash"%string
    [GoLite.VInts [1; 2; 3]%Z; GoLite.VInt (Z.of_N (fnv1a [1; 2; 3]%N))] = GoLite.RRet GoLite.VNil /\
  GoLite.call GoLiteC14.prog GoLiteC14_Verify.hash_ext 1 "VerifyHash"%string
    [GoLite.VInts [1; 2; 3]%Z; GoLite.VInt 7%Z] = GoLite.RRet (GoLite.VErr "fmt.Errorf"%string).
Proof. vm_compute. repeat split; reflexivity. Qed.

Print Assumptions C14_translated_VerifyHash_is_verify_hash.
