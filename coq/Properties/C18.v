(* C18 — Parallel epoch search returns a hit whenever one exists.
   Only statements, `exact`, Print Assumptions and non-vacuity examples live here. *)
From Coq Require Import List Arith NArith Permutation.
Import ListNotations.
Require Import YF.FS YF.FS2 YF.FS3 YF.FSCheck.

(* For every job list, every concurrency limit (0 = none) and EVERY schedule [cs] of launcher,
   workers, closer and consumer: *)

(* (a) a success result is the value of a job that succeeded — never a value no job produced *)
Theorem C18_success_is_a_job_value : forall jobs limit cs s v,
  run jobs limit init cs = Some s -> ret s = Some (ROk v) -> In (Succ v) jobs.
Proof. exact result_is_a_job_success. Qed.

(* (b) an error result means every job failed and lists exactly (a permutation of) all their errors *)
Theorem C18_error_is_complete : forall jobs limit cs s es,
  run jobs limit init cs = Some s -> ret s = Some (RErr es) ->
  Forall (fun o => exists e, o = Fail e) jobs /\ Permutation es (FS3.fails jobs).
Proof. exact error_result_complete. Qed.

(* (c) whenever at least one job succeeds the search never reports an error *)
Theorem C18_success_wins : forall jobs limit cs s v,
  In (Succ v) jobs -> run jobs limit init cs = Some s -> forall es, ret s <> Some (RErr es).
Proof. exact success_wins. Qed.

(* (d) it always terminates: never stuck before returning, and every schedule has at most 3n+2 steps *)
Theorem C18_never_stuck : forall jobs limit cs s,
  run jobs limit init cs = Some s -> ret s = None -> exists c s', step jobs limit s c = Some s'.
Proof. exact reachable_progress. Qed.
Theorem C18_schedules_finite : forall jobs limit cs s,
  run jobs limit init cs = Some s -> length cs <= 3 * length jobs + 2.
Proof. exact schedule_bounded. Qed.

(* (e) the executable acceptance predicate used on the implementation's observations is exactly (a)+(b),
       and every model result satisfies it *)
Theorem C18_acceptance_predicate_exact : forall jobs r, allowedb jobs r = true <->
  match r with
  | ROk v => In (Succ v) jobs
  | RErr es => (forall o, In o jobs -> exists e, o = Fail e) /\ Permutation es (FSCheck.fails jobs)
  end.
Proof. exact allowedb_spec. Qed.
Theorem C18_model_results_accepted : forall jobs limit cs s r,
  run jobs limit init cs = Some s -> ret s = Some r -> allowedb jobs r = true.
Proof. exact allowedb_sound. Qed.

(* (f) all-not-found -> not found, otherwise internal error *)
Theorem C18_not_found_mapping : forall es,
  map_find (RErr es) = NotFoundR <-> Forall (fun e => e = not_found_code) es.
Proof.
  intros es. unfold map_find. rewrite Forall_forall.
  destruct (forallb (N.eqb not_found_code) es) eqn:E.
  - split; [intros _|reflexivity]. rewrite forallb_forall in E. intros x Hx. symmetry. apply N.eqb_eq. auto.
  - split; [discriminate|]. intros H. assert (forallb (N.eqb not_found_code) es = true).
    { apply forallb_forall. intros x Hx. apply N.eqb_eq. symmetry; auto. } congruence.
Qed.

(* non-vacuity: a concrete 3-job search under limit 2 runs to completion and returns job 2's value *)
Example C18_nonvacuous :
  exec_result [Fail 7; Succ 42; Fail 9]%N 2 [2; 1; 0] = Some (ROk 42%N) /\
  exec_result [Fail 7; Fail 8; Fail 9]%N 1 [2; 1; 0] = Some (RErr [7; 8; 9]%N).
Proof. split; vm_compute; reflexivity. Qed.

Print Assumptions C18_success_is_a_job_value.
Print Assumptions C18_error_is_complete.
Print Assumptions C18_success_wins.
Print Assumptions C18_never_stuck.
Print Assumptions C18_schedules_finite.
Print Assumptions C18_acceptance_predicate_exact.
Print Assumptions C18_model_results_accepted.
Print Assumptions C18_not_found_mapping.
