(* C05 — Signature-existence index (bucketteer) has no false negatives.
   Only statements, `exact`, Print Assumptions and non-vacuity examples live here.

   Model: YF.C05_Model (bytes are [list N]; both file formats; writer Put/Has/Seal, reader open_/has over any
   io.ReaderAt, here the in-memory file [file_reader f]).  Throughout:
     hash            ANY function from byte strings to N; [h64 hash s = hash s mod 2^64] is bucketteer.Hash
     prefix s        little-endian uint16 of the first two bytes
     puts hash sigs  the writer state after Put of every element of [sigs], in that order
     seal ver m w    the bytes Seal writes (Err only when the current format refuses the metadata)
     file_has        NewReader/Open on the bytes followed by Reader.Has
   Forced hypotheses (written into the model, excluded here):
     small       fewer than 2^29 distinct hashes under one prefix — Reader.Has computes the byte length of a
                 bucket as uint32(numHashes*8), which wraps from 2^29 elements on;
     meta_small  legacy format only: the serialized metadata is shorter than 2^31 bytes (borsh string lengths
                 are refused above 0x7FFFFFFF and the header size is stored in a uint32); it is [True] for the
                 current format, whose metadata encoder itself bounds the size. *)
From Coq Require Import List NArith Lia.
Import ListNotations.
Require Import YF.Generated.ConstsC05 YF.Codec YF.XXH YF.C05_Model YF.C05_Lemmas YF.C05_Proofs YF.C05_Check.
Local Open Scope N_scope.

(* (a) no false negative: every signature added before sealing is reported present by the sealed file —
       every multiset (list with repetitions, any order), any distribution over prefixes, both formats,
       all metadata, every hash function *)
Theorem C05_no_false_negative :
  forall (hash : list N -> N) (ver : version) (m : meta) (sigs : list (list N)) (f : list N),
  Forall wf_sig sigs ->
  (forall p, N.of_nat (length (clean (bucket (puts hash sigs) p))) < 536870912) ->
  match ver with V2 => True | V1 => N.of_nat (length (enc_meta1 m)) < 2147483648 end ->
  seal ver m (puts hash sigs) = Ok f ->
  forall s, In s sigs -> file_has hash ver f s = Ok true.
Proof. exact no_false_negative. Qed.

(* (b) a signature is reported present only if its 64-bit hash equals that of an added signature with the
       same two-byte prefix *)
Theorem C05_positive_char :
  forall (hash : list N -> N) (ver : version) (m : meta) (sigs : list (list N)) (f : list N),
  Forall wf_sig sigs ->
  (forall p, N.of_nat (length (clean (bucket (puts hash sigs) p))) < 536870912) ->
  match ver with V2 => True | V1 => N.of_nat (length (enc_meta1 m)) < 2147483648 end ->
  seal ver m (puts hash sigs) = Ok f ->
  forall s, wf_sig s -> file_has hash ver f s = Ok true ->
  exists s', In s' sigs /\ prefix s' = prefix s /\ h64 hash s' = h64 hash s.
Proof. exact positive_char. Qed.

(* (c) the writer's in-memory membership test agrees with the sealed file on EVERY 64-byte signature
       (in particular the sealed file never answers with an error) *)
Theorem C05_writer_agrees :
  forall (hash : list N -> N) (ver : version) (m : meta) (sigs : list (list N)) (f : list N),
  Forall wf_sig sigs ->
  (forall p, N.of_nat (length (clean (bucket (puts hash sigs) p))) < 536870912) ->
  match ver with V2 => True | V1 => N.of_nat (length (enc_meta1 m)) < 2147483648 end ->
  seal ver m (puts hash sigs) = Ok f ->
  forall s, wf_sig s -> file_has hash ver f s = Ok (writer_has hash (puts hash sigs) s).
Proof. exact writer_agrees. Qed.

(* the writer's in-memory test itself: true exactly for prefix+hash of an added signature *)
Theorem C05_writer_has_char :
  forall (hash : list N -> N) (sigs : list (list N)) (s : list N),
  writer_has hash (puts hash sigs) s = true <->
  exists s', In s' sigs /\ prefix s' = prefix s /\ h64 hash s' = h64 hash s.
Proof. exact writer_has_char. Qed.

(* Put appends to the slice of its own prefix only (the writer state is modelled as the log of appends) *)
Theorem C05_put_appends_to_own_bucket :
  forall (hash : list N -> N) (w : wstate) (s : list N) (p : N),
  bucket (put hash w s) p = if prefix s =? p then bucket w p ++ [h64 hash s] else bucket w p.
Proof. exact bucket_put. Qed.

(* the forced hypothesis on bucket populations holds for every multiset of fewer than 2^29 signatures *)
Theorem C05_small_of_few :
  forall (hash : list N -> N) (sigs : list (list N)),
  N.of_nat (length sigs) < 536870912 ->
  forall p, N.of_nat (length (clean (bucket (puts hash sigs) p))) < 536870912.
Proof. exact small_of_few. Qed.

(* sealing can only fail on metadata the format refuses (current format: > 255 pairs or a string > 255 bytes) *)
Theorem C05_seal_succeeds :
  forall (ver : version) (m : meta) (w : wstate),
  (exists mb, enc_meta ver m = Some mb) -> exists f, seal ver m w = Ok f.
Proof. exact seal_succeeds. Qed.

(* the model's fuel is never the reason for an answer: on ANY file of bytes (well-formed or not), opening
   and querying never ends in OutOfFuel (header loops consume bytes; the search over a uint32 count ends
   within 64 probes) *)
Theorem C05_fuel_never_decides :
  forall (hash : list N -> N) (ver : version) (f s : list N),
  Forall (fun b => b < 256) f -> file_has hash ver f s <> OutOfFuel.
Proof. exact file_has_fuel_enough. Qed.

(* the checker's memoised hash is xxh64 *)
Theorem C05_checker_hash_is_xxh64 :
  forall sigs s, memo_hash (mk_tbl sigs) s = xxh64 s.
Proof. exact memo_hash_is_xxh64. Qed.

(* version numbers and magic of the model ARE the generated constants; the metadata limits written into the
   model equal those of the source tree (ConstsC05.v is regenerated from bucketteer/bucketteer.go,
   deprecated/bucketteer/bucketteer.go and indexmeta/indexmeta.go on every check) *)
Example C05_constants_match_source :
  version_num V2 = go_version_current /\ version_num V1 = go_version_legacy /\
  magic V2 = go_magic_current /\ magic V1 = go_magic_legacy /\
  length go_magic_current = magic_len /\ length go_magic_legacy = magic_len /\
  N.of_nat max_kvs = go_meta_max_kvs /\ N.of_nat max_key = go_meta_max_key /\ N.of_nat max_value = go_meta_max_value.
Proof. repeat split; reflexivity. Qed.

(* ---------- non-vacuity: concrete multisets meet every hypothesis, in both formats ---------- *)
Definition ex_sigs : list (list N) :=
  [sg 1 2 11; sg 1 2 12; sg 1 2 11; sg 0 0 5; sg 255 255 6; sg 2 1 7; sg 1 2 13; sg 1 2 14].
Definition ex_meta : meta := [([101; 112], [49; 50; 51])].

Example C05_nonvacuous_hypotheses :
  Forall wf_sig ex_sigs /\
  (forall p, N.of_nat (length (clean (bucket (puts xxh64 ex_sigs) p))) < 536870912) /\
  (exists f, seal V1 ex_meta (puts xxh64 ex_sigs) = Ok f) /\ (exists f, seal V2 ex_meta (puts xxh64 ex_sigs) = Ok f) /\
  N.of_nat (length (enc_meta1 ex_meta)) < 2147483648.
Proof.
  split; [|split; [|split; [|split]]].
  - apply wf_sigs_sound. vm_compute. reflexivity.
  - apply small_of_few. vm_compute. reflexivity.
  - apply seal_succeeds. eexists. reflexivity.
  - apply seal_succeeds. eexists. vm_compute. reflexivity.
  - vm_compute. reflexivity.
Qed.

(* and the model really computes the answers the theorems predict (legacy format, evaluated in full) *)
Example C05_nonvacuous_run :
  match seal V1 ex_meta (puts xxh64 ex_sigs) with
  | Ok f => map (file_has xxh64 V1 f) (sg 9 9 9 :: sg 1 2 99 :: sg 2 1 11 :: ex_sigs)
  | _ => []
  end = [Ok false; Ok false; Ok false; Ok true; Ok true; Ok true; Ok true; Ok true; Ok true; Ok true; Ok true].
Proof. vm_compute. reflexivity. Qed.

Print Assumptions C05_no_false_negative.
Print Assumptions C05_positive_char.
Print Assumptions C05_writer_agrees.
Print Assumptions C05_writer_has_char.
Print Assumptions C05_put_appends_to_own_bucket.
Print Assumptions C05_small_of_few.
Print Assumptions C05_seal_succeeds.
Print Assumptions C05_fuel_never_decides.
Print Assumptions C05_checker_hash_is_xxh64.

(* ================================================================ the Go functions themselves, TRANSLATED
   On every check gen/golite.go re-translates searchEytzinger, prefixToUint16, uint16ToPrefix (bucketteer/read.go),
   eytzinger (bucketteer/bucketteer.go), getCleanSet (bucketteer/write.go) and the same functions of
   deprecated/bucketteer from /repo's working tree into the GoLite fragment (Generated/GoLiteC05.v, GoLiteLC05.v;
   semantics: GoLite.v — fixed-width wrap-around, panics on bad indexes, fuel for loops and calls).  The theorems below
   state that each translated function IS the corresponding function of the hand-written model the theorems above are
   about (bsearch, clean = dedup after sort, Eytz3.eytz, prefix); they are re-proved against what the source says now.
   Lists of machine integers are [map Z.of_N] of the model's lists. *)
Require YF.GoLite YF.Generated.GoLiteC04 YF.Generated.GoLiteC05 YF.Generated.GoLiteLC05 YF.GoLiteC04_Eytz
        YF.GoLiteC05_Search YF.GoLiteC05_Clean YF.GoLiteC05_Prefix YF.GoLiteC05_Eytz YF.GoLiteC05_Legacy YF.Eytz YF.Eytz3.
Import ZArith String Sorting.Sorted Sorting.Permutation.

(* read.go:searchEytzinger (min = 0 as its only caller, Reader.Has, passes it) is C05_Model.bsearch — the search
   [has] runs — for EVERY getter oracle [get] (None = the read of that element failed; the interpreter's oracle
   GoLiteC05_Search.ext_getN answers "getter"(i) with (get i, nil) or (0, error "read")), every count below 2^62 and
   every target.  Fuel: the model answers OutOfFuel when F probes were not enough; whenever its answer with fuel F is
   definite, the Go function returns exactly that answer under any interpreter fuel f > F (one unit per probe and one
   to see the loop condition fail). *)
Theorem C05_translated_search_is_the_model : forall (get : N -> option N) (F f : nat) (n x : N),
  (Z.of_N n < 4611686018427387904)%Z ->
  bsearch F get n x 0 <> OutOfFuel -> (F < f)%nat ->
  GoLite.call GoLiteC05.prog (GoLiteC05_Search.ext_getN get) f "searchEytzinger"%string
    [GoLite.VInt 0%Z; GoLite.VInt (Z.of_N n); GoLite.VInt (Z.of_N x)]
  = match bsearch F get n x 0 with
    | Ok true => GoLite.RRet (GoLite.VTuple [GoLite.VInt (Z.of_N x); GoLite.VNil])                    (* (k, nil), k = x *)
    | Ok false => GoLite.RRet (GoLite.VTuple [GoLite.VInt 0%Z; GoLite.VErr "ErrNotFound"%string])     (* (0, ErrNotFound) *)
    | Err => GoLite.RRet (GoLite.VTuple [GoLite.VInt 0%Z; GoLite.VErr "read"%string])                 (* (0, err) *)
    | OutOfFuel => GoLite.RFuel
    end.
Proof. exact (GoLiteC05_Search.searchEytzinger_is_bsearch GoLiteC05.prog GoLiteC05.prog_searchEytzinger). Qed.

(* ... and the model's answer IS definite as soon as n < 2^F: in particular with the fuel [has] itself uses
   (search_fuel = 64) on every count below 2^62 — Has passes int(uint32) *)
Theorem C05_translated_search_is_the_search_of_has : forall (get : N -> option N) (f : nat) (n x : N),
  (Z.of_N n < 4611686018427387904)%Z -> (search_fuel < f)%nat ->
  GoLite.call GoLiteC05.prog (GoLiteC05_Search.ext_getN get) f "searchEytzinger"%string
    [GoLite.VInt 0%Z; GoLite.VInt (Z.of_N n); GoLite.VInt (Z.of_N x)]
  = GoLiteC05_Search.encb x (bsearch search_fuel get n x 0) /\
  bsearch search_fuel get n x 0 <> OutOfFuel.
Proof. exact (GoLiteC05_Search.searchEytzinger_is_has_search GoLiteC05.prog GoLiteC05.prog_searchEytzinger). Qed.

(* bucketteer.go:eytzinger translates to the very term of compactindexsized/build.go:eytzinger (so does the
   deprecated one): it is Eytz.go, by the theorem proved for C04 *)
Theorem C05_translated_eytzinger_is_the_same_term :
  GoLiteC05.fn_eytzinger = GoLiteC04.fn_eytzinger /\ GoLiteLC05.fn_eytzinger = GoLiteC04.fn_eytzinger.
Proof. exact (conj GoLiteC05_Eytz.eytzinger_same GoLiteC05_Eytz.eytzinger_same_legacy). Qed.

Theorem C05_translated_eytzinger_is_the_model : forall ext f (inp out : list Z),
  List.length out = List.length inp -> (Z.of_nat (List.length inp) < 2305843009213693952)%Z -> (List.length inp < 2 ^ f)%nat ->
  GoLite.call GoLiteC05.prog ext f "eytzinger"%string [GoLite.VInts inp; GoLite.VInts out; GoLite.VInt 0%Z; GoLite.VInt 1%Z]
  = GoLiteC04_Eytz.ey_ret (Eytz.go Z 0%Z (S f) inp out 0 1).
Proof. exact (GoLiteC04_Eytz.eytzinger_is_go GoLiteC05.prog GoLiteC05_Eytz.prog_eytzinger_c05). Qed.

(* sortWithCompare's call — fresh output array, i = 0, k = 1 — returns len(in) and the model's layout Eytz3.eytz
   (the function [entries_of] applies to the sorted clean set), for fewer than 2^61 elements; recursion depth f
   suffices when len < 2^f *)
Theorem C05_translated_eytzinger_is_eytz : forall ext f (l : list N),
  (Z.of_nat (List.length l) < 2305843009213693952)%Z -> (List.length l < 2 ^ f)%nat ->
  GoLite.call GoLiteC05.prog ext f "eytzinger"%string
    [GoLite.VInts (map Z.of_N l); GoLite.VInts (repeat 0%Z (List.length l)); GoLite.VInt 0%Z; GoLite.VInt 1%Z]
  = GoLite.RRet (GoLite.VTuple [GoLite.VInt (Z.of_nat (List.length l)); GoLite.VInts (map Z.of_N (Eytz3.eytz N 0 l))]).
Proof. exact (GoLiteC05_Eytz.eytzinger_is_eytz GoLiteC05.prog GoLiteC05_Eytz.prog_eytzinger_c05). Qed.

(* write.go:getCleanSet.  sort.Slice is an oracle of the interpreter.  Whatever list s it hands back, the loop after
   it computes the model's [dedup s] — no panic, len s + 1 units of fuel ... *)
Theorem C05_translated_getCleanSet_is_dedup : forall ext f (entries s : list N),
  ext "sort.Slice: entries[i] < entries[j]"%string [GoLite.VInts (map Z.of_N entries)] = Some (GoLite.VInts (map Z.of_N s)) ->
  (Z.of_nat (List.length s) < 9223372036854775807)%Z -> (List.length s < f)%nat ->
  GoLite.call GoLiteC05.prog ext f "getCleanSet"%string [GoLite.VInts (map Z.of_N entries)]
  = GoLite.RRet (GoLite.VInts (map Z.of_N (dedup s))).
Proof. exact (GoLiteC05_Clean.getCleanSet_is_dedup GoLiteC05.prog GoLiteC05.prog_getCleanSet). Qed.

(* ... so for EVERY sort oracle that returns an ascending (N.le) permutation of its argument — all that the
   comparison entries[i] < entries[j] promises; stability does not matter — getCleanSet is the model's [clean] *)
Theorem C05_translated_getCleanSet_is_clean : forall ext f (entries s : list N),
  ext "sort.Slice: entries[i] < entries[j]"%string [GoLite.VInts (map Z.of_N entries)] = Some (GoLite.VInts (map Z.of_N s)) ->
  Sorted N.le s -> Permutation s entries ->
  (Z.of_nat (List.length entries) < 9223372036854775807)%Z -> (List.length entries < f)%nat ->
  GoLite.call GoLiteC05.prog ext f "getCleanSet"%string [GoLite.VInts (map Z.of_N entries)]
  = GoLite.RRet (GoLite.VInts (map Z.of_N (clean entries))).
Proof. exact (GoLiteC05_Clean.getCleanSet_is_clean GoLiteC05.prog GoLiteC05.prog_getCleanSet). Qed.

(* read.go:prefixToUint16 on the [2]byte made of the first two bytes of a signature is the model's [prefix];
   uint16ToPrefix writes Codec.le_enc 2 and the two invert each other on two-byte inputs / on every uint16 *)
Theorem C05_translated_prefixToUint16_is_prefix : forall ext fuel (s : list N), (2 <= List.length s)%nat ->
  GoLite.call GoLiteC05.prog ext fuel "prefixToUint16"%string [GoLite.VInts (map Z.of_N (firstn 2 s))]
  = GoLite.RRet (GoLite.VInt (Z.of_N (C05_Model.prefix s))).
Proof. exact (GoLiteC05_Prefix.prefixToUint16_is_prefix GoLiteC05.prog GoLiteC05.prog_prefixToUint16). Qed.

Theorem C05_translated_uint16ToPrefix_is_le_enc : forall ext fuel (p : N),
  GoLite.call GoLiteC05.prog ext fuel "uint16ToPrefix"%string [GoLite.VInt (Z.of_N p)]
  = GoLite.RRet (GoLite.VInts (map Z.of_N (le_enc 2 p))).
Proof. exact (GoLiteC05_Prefix.uint16ToPrefix_is_le_enc GoLiteC05.prog GoLiteC05.prog_uint16ToPrefix). Qed.

Theorem C05_translated_uint16ToPrefix_inverts_prefix : forall ext fuel (s : list N),
  List.length s = 2%nat -> Forall (fun b => b < 256) s ->
  GoLite.call GoLiteC05.prog ext fuel "uint16ToPrefix"%string [GoLite.VInt (Z.of_N (C05_Model.prefix s))]
  = GoLite.RRet (GoLite.VInts (map Z.of_N s)).
Proof. exact (GoLiteC05_Prefix.uint16ToPrefix_inverts_prefix GoLiteC05.prog GoLiteC05.prog_uint16ToPrefix). Qed.

Theorem C05_translated_prefixToUint16_inverts_uint16ToPrefix : forall ext fuel (p : N), p < 65536 ->
  GoLite.call GoLiteC05.prog ext fuel "prefixToUint16"%string [GoLite.VInts (map Z.of_N (le_enc 2 p))]
  = GoLite.RRet (GoLite.VInt (Z.of_N p)).
Proof. exact (GoLiteC05_Prefix.prefixToUint16_inverts_uint16ToPrefix GoLiteC05.prog GoLiteC05.prog_prefixToUint16). Qed.

(* ---------- the deprecated package (file format 1): searchEytzinger, getCleanSet, eytzinger translate to the SAME
   terms as the current package (re-checked by reflexivity on every check), so the same theorems hold of its program;
   it has no prefixToUint16 / uint16ToPrefix (prefixes are map keys there) *)
Theorem C05_translated_legacy_same_terms :
  GoLiteLC05.fn_searchEytzinger = GoLiteC05.fn_searchEytzinger /\
  GoLiteLC05.fn_getCleanSet = GoLiteC05.fn_getCleanSet /\
  GoLiteLC05.fn_eytzinger = GoLiteC05.fn_eytzinger.
Proof. repeat split; reflexivity. Qed.

Theorem C05_translated_legacy_search_is_the_model : forall (get : N -> option N) (F f : nat) (n x : N),
  (Z.of_N n < 4611686018427387904)%Z ->
  bsearch F get n x 0 <> OutOfFuel -> (F < f)%nat ->
  GoLite.call GoLiteLC05.prog (GoLiteC05_Search.ext_getN get) f "searchEytzinger"%string
    [GoLite.VInt 0%Z; GoLite.VInt (Z.of_N n); GoLite.VInt (Z.of_N x)]
  = GoLiteC05_Search.encb x (bsearch F get n x 0).
Proof. exact (GoLiteC05_Search.searchEytzinger_is_bsearch GoLiteLC05.prog GoLiteC05_Legacy.prog_searchEytzinger_legacy). Qed.

Theorem C05_translated_legacy_search_is_the_search_of_has : forall (get : N -> option N) (f : nat) (n x : N),
  (Z.of_N n < 4611686018427387904)%Z -> (search_fuel < f)%nat ->
  GoLite.call GoLiteLC05.prog (GoLiteC05_Search.ext_getN get) f "searchEytzinger"%string
    [GoLite.VInt 0%Z; GoLite.VInt (Z.of_N n); GoLite.VInt (Z.of_N x)]
  = GoLiteC05_Search.encb x (bsearch search_fuel get n x 0) /\
  bsearch search_fuel get n x 0 <> OutOfFuel.
Proof. exact (GoLiteC05_Search.searchEytzinger_is_has_search GoLiteLC05.prog GoLiteC05_Legacy.prog_searchEytzinger_legacy). Qed.

Theorem C05_translated_legacy_eytzinger_is_eytz : forall ext f (l : list N),
  (Z.of_nat (List.length l) < 2305843009213693952)%Z -> (List.length l < 2 ^ f)%nat ->
  GoLite.call GoLiteLC05.prog ext f "eytzinger"%string
    [GoLite.VInts (map Z.of_N l); GoLite.VInts (repeat 0%Z (List.length l)); GoLite.VInt 0%Z; GoLite.VInt 1%Z]
  = GoLite.RRet (GoLite.VTuple [GoLite.VInt (Z.of_nat (List.length l)); GoLite.VInts (map Z.of_N (Eytz3.eytz N 0 l))]).
Proof. exact (GoLiteC05_Eytz.eytzinger_is_eytz GoLiteLC05.prog GoLiteC05_Eytz.prog_eytzinger_legacy). Qed.

Theorem C05_translated_legacy_getCleanSet_is_clean : forall ext f (entries s : list N),
  ext "sort.Slice: entries[i] < entries[j]"%string [GoLite.VInts (map Z.of_N entries)] = Some (GoLite.VInts (map Z.of_N s)) ->
  Sorted N.le s -> Permutation s entries ->
  (Z.of_nat (List.length entries) < 9223372036854775807)%Z -> (List.length entries < f)%nat ->
  GoLite.call GoLiteLC05.prog ext f "getCleanSet"%string [GoLite.VInts (map Z.of_N entries)]
  = GoLite.RRet (GoLite.VInts (map Z.of_N (clean entries))).
Proof. exact (GoLiteC05_Clean.getCleanSet_is_clean GoLiteLC05.prog GoLiteC05_Legacy.prog_getCleanSet_legacy). Qed.

(* non-vacuity: the translated functions RUN (vm_compute inside the kernel), in both packages: a bucket with
   duplicates is cleaned by the translated getCleanSet (sort oracle: the model's merge sort), laid out by the
   translated eytzinger, then every element is found and absent ones are not found by the translated
   searchEytzinger reading that layout; a getter that fails gives the read error; the prefix functions round-trip *)
Example C05_translated_functions_run :
  let bucket := [50; 30; 50; 10; 40; 30; 20; 60; 10; 70]%N in
  let getter := fun (arr : list Z) (i : N) => match nth_error arr (N.to_nat i) with Some h => Some (Z.to_N h) | None => None end in
  forallb (fun prog =>
    match GoLite.call prog GoLiteC05_Clean.ext_nsort 20 "getCleanSet"%string [GoLite.VInts (map Z.of_N bucket)] with
    | GoLite.RRet (GoLite.VInts cl) =>
        match GoLite.call prog GoLite.no_ext 10 "eytzinger"%string
                [GoLite.VInts cl; GoLite.VInts (repeat 0%Z (List.length cl)); GoLite.VInt 0%Z; GoLite.VInt 1%Z] with
        | GoLite.RRet (GoLite.VTuple [GoLite.VInt 7%Z; GoLite.VInts arr]) =>
            ((if list_eq_dec Z.eq_dec cl [10; 20; 30; 40; 50; 60; 70]%Z then true else false) &&
            (if list_eq_dec Z.eq_dec arr [40; 20; 60; 10; 30; 50; 70]%Z then true else false) &&
            forallb (fun k => match GoLite.call prog (GoLiteC05_Search.ext_getN (getter arr)) 20 "searchEytzinger"%string
                                      [GoLite.VInt 0%Z; GoLite.VInt 7%Z; GoLite.VInt k] with
                              | GoLite.RRet (GoLite.VTuple [GoLite.VInt v; GoLite.VNil]) => Z.eqb v k
                              | _ => false end) cl &&
            forallb (fun k => match GoLite.call prog (GoLiteC05_Search.ext_getN (getter arr)) 20 "searchEytzinger"%string
                                      [GoLite.VInt 0%Z; GoLite.VInt 7%Z; GoLite.VInt k] with
                              | GoLite.RRet (GoLite.VTuple [GoLite.VInt 0%Z; GoLite.VErr "ErrNotFound"%string]) => true
                              | _ => false end) [0; 15; 45; 71]%Z &&
            match GoLite.call prog (GoLiteC05_Search.ext_getN (getter arr)) 20 "searchEytzinger"%string
                    [GoLite.VInt 0%Z; GoLite.VInt 9%Z; GoLite.VInt 5%Z] with
            | GoLite.RRet (GoLite.VTuple [GoLite.VInt 0%Z; GoLite.VErr "read"%string]) => true
            | _ => false end)%bool
        | _ => false
        end
    | _ => false
    end) [GoLiteC05.prog; GoLiteLC05.prog] = true /\
  GoLite.call GoLiteC05.prog GoLite.no_ext 0 "prefixToUint16"%string [GoLite.VInts [1; 2]%Z] = GoLite.RRet (GoLite.VInt 513%Z) /\
  GoLite.call GoLiteC05.prog GoLite.no_ext 0 "uint16ToPrefix"%string [GoLite.VInt 513%Z] = GoLite.RRet (GoLite.VInts [1; 2]%Z).
Proof. vm_compute. repeat split; reflexivity. Qed.

Print Assumptions C05_translated_search_is_the_model.
Print Assumptions C05_translated_search_is_the_search_of_has.
Print Assumptions C05_translated_eytzinger_is_the_same_term.
Print Assumptions C05_translated_eytzinger_is_the_model.
Print Assumptions C05_translated_eytzinger_is_eytz.
Print Assumptions C05_translated_getCleanSet_is_dedup.
Print Assumptions C05_translated_getCleanSet_is_clean.
Print Assumptions C05_translated_prefixToUint16_is_prefix.
Print Assumptions C05_translated_uint16ToPrefix_is_le_enc.
Print Assumptions C05_translated_uint16ToPrefix_inverts_prefix.
Print Assumptions C05_translated_prefixToUint16_inverts_uint16ToPrefix.
Print Assumptions C05_translated_legacy_same_terms.
Print Assumptions C05_translated_legacy_search_is_the_model.
Print Assumptions C05_translated_legacy_search_is_the_search_of_has.
Print Assumptions C05_translated_legacy_eytzinger_is_eytz.
Print Assumptions C05_translated_legacy_getCleanSet_is_clean.

(* ---------- (Reader).Has — the whole lookup of a signature (bucketteer/read.go) — translated on every check
   (Generated/GoLiteHasC05.v): prefix -> bucket offset, the hash count read through readFullAt, the section reader over
   the bucket's hashes, the signature's hash, and searchEytzinger whose getter is the function literal reading the
   index-th hash through that section reader (translated as its own function "Reader.Has$getter"; the first lemma
   records what the translator saw being passed). The getter oracle is interpreted as exactly that function run over
   the section reader Has builds. For EVERY file reader (all-or-nothing reads that may fail anywhere), offset table and
   well-formed signature, Has returns what the model's has returns (C05_Model.has — the function the no-false-negative
   theorems above are about): true / false, or an error where the model says Err; the uint32 wrap of the section size
   and the int64 conversion of the offset are the model's. ---------- *)
Require YF.Generated.GoLiteHasC05 YF.GoLiteC05_Has.

Lemma C05_translated_Has_passes_the_section_getter :
  GoLiteHasC05.binding_Reader_Has_getter = ("searchEytzinger"%string, "getter"%string, "Reader.Has$getter(bucketReader)"%string).
Proof. reflexivity. Qed.

Theorem C05_translated_Has_is_the_models_has :
  forall (hash : list N -> N) (R : N -> N -> option (list N)),
  (forall o l bs, R o l = Some bs -> List.length bs = N.to_nat l) ->
  (forall o l bs, R o l = Some bs -> Forall (fun b => b < 256) bs) ->
  (forall o l bs, R o l = Some bs -> o + l < 4611686018427387904) ->          (* files are shorter than 2^62 bytes *)
  forall (base : N) (tab : list N) (mtab : list (N * N)),
  Z.of_nat (List.length tab) = 65536%Z -> Forall (fun v => v < two64) tab ->
  (forall p, p < 65536 -> lookup_off V2 mtab p =
                          (if nth (N.to_nat p) tab 0 =? maxu64 then None else Some (nth (N.to_nat p) tab 0))) ->
  forall (s : list N) (f : nat), wf_sig s -> (search_fuel + 2 < f)%nat ->
  GoLiteC05_Has.enc_has (has hash V2 R {| r_tab := mtab; r_base := base |} s)
    (GoLite.call GoLiteHasC05.prog (GoLiteC05_Has.ext_of hash R base tab s) f "Reader.Has"%string
       [GoLiteC05_Has.rv tab; GoLite.VInts (map Z.of_N s)]).
Proof. exact GoLiteC05_Has.Has_is_has. Qed.

Print Assumptions C05_translated_Has_is_the_models_has.

(* the translated Has RUNS: one bucket (prefix 1) holding the hash 777 at content offset 0; a signature hashing to 777
   is found, one hashing to 778 is not, and on a file cut inside the bucket the first is an error, not "false" *)
Example C05_translated_Has_runs :
  let file := (Codec.le_enc 4 1 ++ Codec.le_enc 8 777)%list in
  let tab := (18446744073709551615 :: 0 :: repeat 18446744073709551615 (N.to_nat 65534))%N in
  let s := (1 :: repeat 0 63)%N in
  let run := fun (h : N) (fl : list N) =>
    GoLite.call GoLiteHasC05.prog (GoLiteC05_Has.ext_of (fun _ => h) (file_reader fl) 0 tab s) 70 "Reader.Has"%string
      [GoLiteC05_Has.rv tab; GoLite.VInts (map Z.of_N s)] in
  run 777 file = GoLite.RRet (GoLite.VTuple [GoLite.VBool true; GoLite.VNil]) /\
  run 778 file = GoLite.RRet (GoLite.VTuple [GoLite.VBool false; GoLite.VNil]) /\
  run 777 (firstn 9 file) = GoLite.RRet (GoLite.VTuple [GoLite.VBool false; GoLite.VErr "read"%string]).
Proof. vm_compute. repeat split; reflexivity. Qed.
