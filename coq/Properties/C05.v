(* C05 — Signature-existence index (bucketteer) has no false negatives.
   Only statements, `exact`, Print Assumptions and non-vacuity examples live here.

   Model: YF.C05_Model (bytes are [list N]; both file formats; writer Put/Has/Seal, reader open_/has over any
   io.ReaderAt, here the in-memory file [file_reader f]).  Throughout:
     hash            ANY function from byte strings to N; [h64 hash s = hash s mod 2^64] is bucketteer.Hash
     prefix s        little-endian uint16 of the first two bytes
     puts hash sigs  the writer state after Put of every element of [sigs], in that order
     seal ver m w    the bytes Seal writes (Err only when the current format refuses the metadata)
     file_has        NewReader/Open on the bytes followed by Reader.Has
   Forced hypotheses (written into the model, excluded here):
     small       fewer than 2^29 distinct hashes under one prefix — Reader.Has computes the byte length of a
                 bucket as uint32(numHashes*8), which wraps from 2^29 elements on;
     meta_small  legacy format only: the serialized metadata is shorter than 2^31 bytes (borsh string lengths
                 are refused above 0x7FFFFFFF and the header size is stored in a uint32); it is [True] for the
                 current format, whose metadata encoder itself bounds the size. *)
From Coq Require Import List NArith Lia.
Import ListNotations.
Require Import YF.Generated.ConstsC05 YF.Codec YF.XXH YF.C05_Model YF.C05_Lemmas YF.C05_Proofs YF.C05_Check.
Local Open Scope N_scope.

(* (a) no false negative: every signature added before sealing is reported present by the sealed file —
       every multiset (list with repetitions, any order), any distribution over prefixes, both formats,
       all metadata, every hash function *)
Theorem C05_no_false_negative :
  forall (hash : list N -> N) (ver : version) (m : meta) (sigs : list (list N)) (f : list N),
  Forall wf_sig sigs ->
  (forall p, N.of_nat (length (clean (bucket (puts hash sigs) p))) < 536870912) ->
  match ver with V2 => True | V1 => N.of_nat (length (enc_meta1 m)) < 2147483648 end ->
  seal ver m (puts hash sigs) = Ok f ->
  forall s, In s sigs -> file_has hash ver f s = Ok true.
Proof. exact no_false_negative. Qed.

(* (b) a signature is reported present only if its 64-bit hash equals that of an added signature with the
       same two-byte prefix *)
Theorem C05_positive_char :
  forall (hash : list N -> N) (ver : version) (m : meta) (sigs : list (list N)) (f : list N),
  Forall wf_sig sigs ->
  (forall p, N.of_nat (length (clean (bucket (puts hash sigs) p))) < 536870912) ->
  match ver with V2 => True | V1 => N.of_nat (length (enc_meta1 m)) < 2147483648 end ->
  seal ver m (puts hash sigs) = Ok f ->
  forall s, wf_sig s -> file_has hash ver f s = Ok true ->
  exists s', In s' sigs /\ prefix s' = prefix s /\ h64 hash s' = h64 hash s.
Proof. exact positive_char. Qed.

(* (c) the writer's in-memory membership test agrees with the sealed file on EVERY 64-byte signature
       (in particular the sealed file never answers with an error) *)
Theorem C05_writer_agrees :
  forall (hash : list N -> N) (ver : version) (m : meta) (sigs : list (list N)) (f : list N),
  Forall wf_sig sigs ->
  (forall p, N.of_nat (length (clean (bucket (puts hash sigs) p))) < 536870912) ->
  match ver with V2 => True | V1 => N.of_nat (length (enc_meta1 m)) < 2147483648 end ->
  seal ver m (puts hash sigs) = Ok f ->
  forall s, wf_sig s -> file_has hash ver f s = Ok (writer_has hash (puts hash sigs) s).
Proof. exact writer_agrees. Qed.

(* the writer's in-memory test itself: true exactly for prefix+hash of an added signature *)
Theorem C05_writer_has_char :
  forall (hash : list N -> N) (sigs : list (list N)) (s : list N),
  writer_has hash (puts hash sigs) s = true <->
  exists s', In s' sigs /\ prefix s' = prefix s /\ h64 hash s' = h64 hash s.
Proof. exact writer_has_char. Qed.

(* Put appends to the slice of its own prefix only (the writer state is modelled as the log of appends) *)
Theorem C05_put_appends_to_own_bucket :
  forall (hash : list N -> N) (w : wstate) (s : list N) (p : N),
  bucket (put hash w s) p = if prefix s =? p then bucket w p ++ [h64 hash s] else bucket w p.
Proof. exact bucket_put. Qed.

(* the forced hypothesis on bucket populations holds for every multiset of fewer than 2^29 signatures *)
Theorem C05_small_of_few :
  forall (hash : list N -> N) (sigs : list (list N)),
  N.of_nat (length sigs) < 536870912 ->
  forall p, N.of_nat (length (clean (bucket (puts hash sigs) p))) < 536870912.
Proof. exact small_of_few. Qed.

(* sealing can only fail on metadata the format refuses (current format: > 255 pairs or a string > 255 bytes) *)
Theorem C05_seal_succeeds :
  forall (ver : version) (m : meta) (w : wstate),
  (exists mb, enc_meta ver m = Some mb) -> exists f, seal ver m w = Ok f.
Proof. exact seal_succeeds. Qed.

(* the model's fuel is never the reason for an answer: on ANY file of bytes (well-formed or not), opening
   and querying never ends in OutOfFuel (header loops consume bytes; the search over a uint32 count ends
   within 64 probes) *)
Theorem C05_fuel_never_decides :
  forall (hash : list N -> N) (ver : version) (f s : list N),
  Forall (fun b => b < 256) f -> file_has hash ver f s <> OutOfFuel.
Proof. exact file_has_fuel_enough. Qed.

(* the checker's memoised hash is xxh64 *)
Theorem C05_checker_hash_is_xxh64 :
  forall sigs s, memo_hash (mk_tbl sigs) s = xxh64 s.
Proof. exact memo_hash_is_xxh64. Qed.

(* version numbers and magic of the model ARE the generated constants; the metadata limits written into the
   model equal those of the source tree (ConstsC05.v is regenerated from bucketteer/bucketteer.go,
   deprecated/bucketteer/bucketteer.go and indexmeta/indexmeta.go on every check) *)
Example C05_constants_match_source :
  version_num V2 = go_version_current /\ version_num V1 = go_version_legacy /\
  magic V2 = go_magic_current /\ magic V1 = go_magic_legacy /\
  length go_magic_current = magic_len /\ length go_magic_legacy = magic_len /\
  N.of_nat max_kvs = go_meta_max_kvs /\ N.of_nat max_key = go_meta_max_key /\ N.of_nat max_value = go_meta_max_value.
Proof. repeat split; reflexivity. Qed.

(* ---------- non-vacuity: concrete multisets meet every hypothesis, in both formats ---------- *)
Definition ex_sigs : list (list N) :=
  [sg 1 2 11; sg 1 2 12; sg 1 2 11; sg 0 0 5; sg 255 255 6; sg 2 1 7; sg 1 2 13; sg 1 2 14].
Definition ex_meta : meta := [([101; 112], [49; 50; 51])].

Example C05_nonvacuous_hypotheses :
  Forall wf_sig ex_sigs /\
  (forall p, N.of_nat (length (clean (bucket (puts xxh64 ex_sigs) p))) < 536870912) /\
  (exists f, seal V1 ex_meta (puts xxh64 ex_sigs) = Ok f) /\ (exists f, seal V2 ex_meta (puts xxh64 ex_sigs) = Ok f) /\
  N.of_nat (length (enc_meta1 ex_meta)) < 2147483648.
Proof.
  split; [|split; [|split; [|split]]].
  - apply wf_sigs_sound. vm_compute. reflexivity.
  - apply small_of_few. vm_compute. reflexivity.
  - apply seal_succeeds. eexists. reflexivity.
  - apply seal_succeeds. eexists. vm_compute. reflexivity.
  - vm_compute. reflexivity.
Qed.

(* and the model really computes the answers the theorems predict (legacy format, evaluated in full) *)
Example C05_nonvacuous_run :
  match seal V1 ex_meta (puts xxh64 ex_sigs) with
  | Ok f => map (file_has xxh64 V1 f) (sg 9 9 9 :: sg 1 2 99 :: sg 2 1 11 :: ex_sigs)
  | _ => []
  end = [Ok false; Ok false; Ok false; Ok true; Ok true; Ok true; Ok true; Ok true; Ok true; Ok true; Ok true].
Proof. vm_compute. reflexivity. Qed.

Print Assumptions C05_no_false_negative.
Print Assumptions C05_positive_char.
Print Assumptions C05_writer_agrees.
Print Assumptions C05_writer_has_char.
Print Assumptions C05_put_appends_to_own_bucket.
Print Assumptions C05_small_of_few.
Print Assumptions C05_seal_succeeds.
Print Assumptions C05_fuel_never_decides.
Print Assumptions C05_checker_hash_is_xxh64.
