(* C08 — no request can crash the server.
   Model of the request-parameter parsers (request-response.go, getSignaturesForAddress.go), the method
   dispatch (multiepoch.go:handleRequest) and the gRPC stream-filter handling (grpc-server.go) with an explicit
   three-way outcome: every pointer dereference of a possibly-nil value and every Must* parser is a [Panic]
   site unless guarded. The flags select the pinned (unguarded) or the repaired (guarded) behaviour. *)
From Coq Require Import List Bool ZArith NArith Lia.
Import ListNotations.

(* ---------- JSON values as the handlers see them after decoding into []any / map[string]any ---------- *)
(* strings are abstracted by what the parsers can tell about them *)
Inductive strkind :=
| SSig            (* valid base58 of 64 bytes, not all zero *)
| SZeroSig        (* valid base58 of 64 zero bytes *)
| SPubkey         (* valid base58 of 32 bytes *)
| SEncoding (supported : bool)   (* an encoding name; supported = one of base58/base64/base64+zstd/json(+jsonParsed when enabled) *)
| SOther.         (* anything else *)

Inductive json :=
| JNull | JBool (b : bool) | JNum (z : Z) | JStr (k : strkind)
| JArr (l : list json)
| JObj (fields : list (N * json)).   (* keys are numbered: see the key constants below *)

Definition k_commitment : N := 1. Definition k_encoding : N := 2. Definition k_maxver : N := 3.
Definition k_txdetails : N := 4.  Definition k_rewards : N := 5.  Definition k_limit : N := 6.
Definition k_before : N := 7.     Definition k_until : N := 8.

Fixpoint lookup (k : N) (fs : list (N * json)) : option json :=
  match fs with [] => None | (k', v) :: r => if N.eqb k k' then Some v else lookup k r end.

(* what the JSON-RPC layer hands to the parser: the "params" member *)
Inductive params :=
| PMissing                (* no "params" member: req.Params is a nil pointer *)
| PRaw (valid_array : option (list json)).   (* present; Some l = decodes into []any (null decodes to the empty list), None = does not *)

Inductive outcome := Proceeds | InvalidParams | Panic (site : nat).

Definition is_str (j : json) : bool := match j with JStr _ => true | _ => false end.
Definition is_num (j : json) : bool := match j with JNum _ => true | _ => false end.
Definition is_bool (j : json) : bool := match j with JBool _ => true | _ => false end.

(* a field that, when present, must have a given JSON type *)
Definition field_ok (fs : list (N * json)) (k : N) (p : json -> bool) : bool :=
  match lookup k fs with None => true | Some v => p v end.

(* encoding requested (None = default encoding) *)
Definition encoding_of (fs : list (N * json)) : option strkind :=
  match lookup k_encoding fs with Some (JStr k) => Some k | _ => None end.
Definition encoding_supported (e : option strkind) : bool :=
  match e with None => true | Some (SEncoding s) => s | Some _ => false end.

(* ---- parseGetBlockRequest + Validate ---- *)
Definition parse_get_block (nil_checked : bool) (p : params) : outcome :=
  match p with
  | PMissing => if nil_checked then InvalidParams else Panic 1
  | PRaw None => InvalidParams
  | PRaw (Some l) =>
      match l with
      | [] => InvalidParams
      | first :: rest =>
          if negb (is_num first) then InvalidParams else
          match rest with
          | [] => Proceeds
          | JObj fs :: _ =>
              if field_ok fs k_commitment is_str && field_ok fs k_encoding is_str && field_ok fs k_maxver is_num &&
                 field_ok fs k_txdetails is_str && field_ok fs k_rewards is_bool
              then (if encoding_supported (encoding_of fs) then Proceeds else InvalidParams)
              else InvalidParams
          | _ :: _ => InvalidParams
          end
      end
  end.

(* ---- parseGetTransactionRequest + Validate ---- *)
Definition parse_get_transaction (nil_checked : bool) (p : params) : outcome :=
  match p with
  | PMissing => if nil_checked then InvalidParams else Panic 2
  | PRaw None => InvalidParams
  | PRaw (Some l) =>
      match l with
      | [] => InvalidParams
      | JStr SSig :: rest | JStr SZeroSig :: rest =>
          let zero := match l with JStr SZeroSig :: _ => true | _ => false end in
          match rest with
          | [] => if zero then InvalidParams else Proceeds
          | JObj fs :: _ =>
              if field_ok fs k_encoding is_str && field_ok fs k_maxver is_num && field_ok fs k_commitment is_str
              then (if zero then InvalidParams else if encoding_supported (encoding_of fs) then Proceeds else InvalidParams)
              else InvalidParams
          | _ :: _ => InvalidParams
          end
      | _ :: _ => InvalidParams
      end
  end.

(* ---- parseGetBlockTimeRequest ---- *)
Definition parse_get_block_time (nil_checked : bool) (p : params) : outcome :=
  match p with
  | PMissing => if nil_checked then InvalidParams else Panic 3
  | PRaw None => InvalidParams
  | PRaw (Some l) => match l with first :: _ => if is_num first then Proceeds else InvalidParams | [] => InvalidParams end
  end.

(* ---- parseGetSignaturesForAddressParams: ill-typed optional members are ignored, bad base58 is an error ---- *)
Definition sig_field_ok (fs : list (N * json)) (k : N) : bool :=
  match lookup k fs with
  | Some (JStr SSig) | Some (JStr SZeroSig) => true
  | Some (JStr _) => false          (* a string that is not a base58 signature *)
  | _ => true                        (* absent or not a string: ignored *)
  end.
Definition parse_gsfa (nil_checked : bool) (p : params) : outcome :=
  match p with
  | PMissing => if nil_checked then InvalidParams else Panic 4
  | PRaw None => InvalidParams
  | PRaw (Some l) =>
      match l with
      | JStr SPubkey :: rest =>
          match rest with
          | JObj fs :: _ => if sig_field_ok fs k_before && sig_field_ok fs k_until then Proceeds else InvalidParams
          | _ => Proceeds
          end
      | _ => InvalidParams
      end
  end.

(* ---- dispatch ---- *)
Inductive method := MGetBlock | MGetTransaction | MGetBlockTime | MGsfa | MNoParams | MUnknown.
Inductive reply := RProceeds | RInvalidParams | RMethodNotFound | RPanic (site : nat).

(* getTransaction answers "no epochs available" before it looks at the params when no epoch is loaded *)
Definition handle (nil_checked : bool) (epochs_loaded : bool) (m : method) (p : params) : reply :=
  let conv o := match o with Proceeds => RProceeds | InvalidParams => RInvalidParams | Panic s => RPanic s end in
  match m with
  | MGetBlock => conv (parse_get_block nil_checked p)
  | MGetTransaction => if epochs_loaded then conv (parse_get_transaction nil_checked p) else RProceeds
  | MGetBlockTime => conv (parse_get_block_time nil_checked p)
  | MGsfa => conv (parse_gsfa nil_checked p)
  | MNoParams => RProceeds
  | MUnknown => RMethodNotFound
  end.

Theorem handle_never_panics epochs m p : forall s, handle true epochs m p <> RPanic s.
Proof.
  intros s. destruct m; cbn; try discriminate.
  - destruct p as [|[l|]]; cbn; try discriminate. destruct l as [|f r]; [discriminate|].
    destruct (is_num f); cbn; [|discriminate]. destruct r as [|[| | | | |fs] r']; try discriminate.
    destruct (_ && _ && _ && _ && _); [destruct (encoding_supported _)|]; discriminate.
  - destruct epochs; [|discriminate]. destruct p as [|[l|]]; cbn; try discriminate.
    destruct l as [|[| | |[| | | |]| |] r]; try discriminate.
    + destruct r as [|[| | | | |fs] r']; try discriminate.
      destruct (_ && _ && _); [destruct (encoding_supported _)|]; discriminate.
    + destruct r as [|[| | | | |fs] r']; try discriminate.
      destruct (_ && _ && _); discriminate.
  - destruct p as [|[l|]]; cbn; try discriminate. destruct l as [|f r]; [discriminate|]. destruct (is_num f); discriminate.
  - destruct p as [|[l|]]; cbn; try discriminate.
    destruct l as [|[| | |[| | | |]| |] r]; try discriminate.
    destruct r as [|[| | | | |fs] r']; try discriminate. destruct (_ && _); discriminate.
Qed.

(* the pinned parsers dereference the nil "params" pointer *)
Lemma missing_params_panics_when_unchecked :
  handle false true MGetBlock PMissing = RPanic 1 /\ handle false true MGetTransaction PMissing = RPanic 2 /\
  handle false true MGetBlockTime PMissing = RPanic 3 /\ handle false true MGsfa PMissing = RPanic 4.
Proof. repeat split. Qed.

(* defaults: whenever getBlock / getTransaction parsing proceeds, the option fields the handlers dereference
   later (the Encoding and Rewards option pointers) have been set — modelled by construction: the
   parsers set them on every path; the model's Proceeds therefore never leads to a nil option dereference. *)

(* ---------- gRPC: StreamTransactions filter ---------- *)
Record grpc_filter := {
  g_vote : option bool; g_failed : option bool;
  g_accounts_wellformed : bool      (* every account string in include/exclude/required is valid base58 of 32 bytes *)
}.
Inductive grpc_outcome := GStreams | GInvalidArgument | GPanic (site : nat) | GSpins.   (* GSpins: the handler does not return *)
(* flags_checked: optional vote/failed are tested for nil; accounts_checked: account strings parsed with an
   error-returning parser up front instead of MustPublicKeyFromBase58 *)
Definition grpc_stream_txs (flags_checked accounts_checked : bool) (has_txs : bool) (f : option grpc_filter) : grpc_outcome :=
  match f with
  | None => GStreams
  | Some g =>
      if accounts_checked && negb (g_accounts_wellformed g) then GInvalidArgument else
      if negb has_txs then GStreams else                 (* the predicate only runs on archived transactions *)
      match g_vote g, g_failed g with
      | Some _, Some _ => if g_accounts_wellformed g then GStreams else GPanic 12
      | _, _ => if flags_checked then (if g_accounts_wellformed g then GStreams else GPanic 12) else GPanic 11
      end
  end.

Theorem grpc_never_panics has_txs f : forall s, grpc_stream_txs true true has_txs f <> GPanic s.
Proof.
  intros s. destruct f as [g|]; cbn; [|discriminate].
  destruct (g_accounts_wellformed g) eqn:E; cbn; [|discriminate].
  destruct has_txs; cbn; [|discriminate]. destruct (g_vote g), (g_failed g); discriminate.
Qed.
Lemma grpc_absent_flag_panics_when_unchecked :
  grpc_stream_txs false false true (Some {| g_vote := None; g_failed := Some true; g_accounts_wellformed := true |}) = GPanic 11.
Proof. reflexivity. Qed.
Lemma grpc_malformed_account_panics_when_unchecked :
  grpc_stream_txs true false true (Some {| g_vote := Some true; g_failed := Some true; g_accounts_wellformed := false |}) = GPanic 12.
Proof. reflexivity. Qed.

(* ---------- gRPC: StreamTransactions slot range (multiepoch-getSignaturesForAddress.go:
   getGsfaReadersInEpochDescendingOrderForSlotRange) ----------
   The request carries start_slot and an optional end_slot (default start+100), both uint64 and both taken as
   they are. The helper collects the loaded epochs in [epoch(start), epoch(end)] into a slice. The pinned code
   sizes that slice make([]*Epoch, 0, endEpoch-startEpoch+1) in uint64 arithmetic: an end before the start
   wraps to ~2^64 and a far-away end asks for terabytes; makeslice panics (or the runtime dies out of memory)
   once the byte size passes the allocator's limit. The repaired code sizes it by the number of LOADED epochs. *)
Definition two64 : N := 18446744073709551616.
Definition epoch_len : N := 432000.
Definition max_stream : N := 100.
Definition max_alloc_bytes : N := 281474976710656.     (* 2^48: runtime maxAlloc on linux/amd64 *)
Definition epoch_of (slot : N) : N := slot / epoch_len.
Definition end_slot (start : N) (e : option N) : N := match e with Some x => x | None => (start + max_stream) mod two64 end.
Definition range_cap (bounded : bool) (loaded : N) (start : N) (e : option N) : N :=
  if bounded then loaded
  else (two64 + epoch_of (end_slot start e) - epoch_of start + 1) mod two64.
Definition grpc_stream_range (bounded : bool) (loaded : N) (start : N) (e : option N) : grpc_outcome :=
  if (range_cap bounded loaded start e * 8 <=? max_alloc_bytes)%N then GStreams else GPanic 13.

Theorem grpc_range_never_panics loaded start e : (loaded <= 4294967296)%N -> forall s, grpc_stream_range true loaded start e <> GPanic s.
Proof.
  intros Hl s. unfold grpc_stream_range, range_cap.
  destruct (N.leb_spec (loaded * 8) max_alloc_bytes) as [_|H]; [discriminate|].
  exfalso. unfold max_alloc_bytes in H. lia.
Qed.
Lemma grpc_range_end_before_start_panics_when_unbounded :
  grpc_stream_range false 1 (432000 * 5) (Some 0%N) = GPanic 13.
Proof. vm_compute. reflexivity. Qed.
Lemma grpc_range_far_end_panics_when_unbounded :
  grpc_stream_range false 1 0 (Some 18446744073709551615%N) = GPanic 13.
Proof. vm_compute. reflexivity. Qed.
Lemma grpc_range_default_end_wraps_when_unbounded :
  grpc_stream_range false 1 18446744073709551615 None = GPanic 13.
Proof. vm_compute. reflexivity. Qed.

(* After the per-account index queries (each under a deadline) the collected transactions are sent in slot order
   (grpc-server.go:txBuffer.flush). The pinned flush walks EVERY slot number of the window [start, end] without
   looking at the context; the repaired flush visits the slots that hold transactions. A handler that needs more
   than 2^40 loop iterations is counted as not returning. *)
Definition spin_budget : N := 1099511627776.
Definition window (start : N) (e : option N) : N := let en := end_slot start e in if (start <=? en)%N then en - start + 1 else 0.
Definition flush_iterations (sparse : bool) (held : N) (start : N) (e : option N) : N := if sparse then held else window start e.
(* indexed: the filter names accounts and an address index covers the window *)
Definition grpc_stream_window (bounded sparse : bool) (loaded held : N) (indexed : bool) (start : N) (e : option N) : grpc_outcome :=
  match grpc_stream_range bounded loaded start e with
  | GStreams => if indexed && negb (flush_iterations sparse held start e <=? spin_budget)%N then GSpins else GStreams
  | o => o
  end.
Theorem grpc_window_always_returns loaded held indexed start e : (loaded <= 4294967296)%N -> (held <= spin_budget)%N ->
  grpc_stream_window true true loaded held indexed start e = GStreams.
Proof.
  intros Hl Hh. unfold grpc_stream_window.
  assert (R : grpc_stream_range true loaded start e = GStreams).
  { unfold grpc_stream_range, range_cap. destruct (N.leb_spec (loaded * 8) max_alloc_bytes) as [_|H]; [reflexivity|].
    exfalso. unfold max_alloc_bytes in H. lia. }
  rewrite R. unfold flush_iterations. apply N.leb_le in Hh. rewrite Hh. destruct indexed; reflexivity.
Qed.
Lemma grpc_window_spins_when_walking_every_slot :
  grpc_stream_window true false 1 0 true 0 (Some 36028797018963968%N) = GSpins.
Proof. vm_compute. reflexivity. Qed.

(* Index-accelerated path: every found transaction goes into the ordered buffer under (slot, position index).
   The position index is OPTIONAL in the archive format (ledger.ipldsch: `index nullable optional Int`); the pinned
   code dereferences it unconditionally, inside a goroutine, so an epoch written before the field existed ends the
   process; the repaired code answers Internal. *)
Definition grpc_buffer_add (index_checked : bool) (position : option N) : grpc_outcome :=
  match position with
  | Some _ => GStreams
  | None => if index_checked then GStreams (* an error status, the stream ends *) else GPanic 15
  end.
Theorem grpc_position_index_checked position : forall s, grpc_buffer_add true position <> GPanic s.
Proof. intros s. destruct position; discriminate. Qed.
Lemma grpc_absent_position_index_panics_when_unchecked : grpc_buffer_add false None = GPanic 15.
Proof. reflexivity. Qed.

(* getBlock, rewards: a commission STRING is turned into a number; pinned: panic when it is not one *)
Definition reward_commission (checked : bool) (is_number : bool) : reply :=
  if is_number then RProceeds else if checked then RProceeds else RPanic 16.
Theorem reward_commission_checked is_number : forall s, reward_commission true is_number <> RPanic s.
Proof. intros s. destruct is_number; discriminate. Qed.
Lemma reward_commission_panics_when_unchecked : reward_commission false false = RPanic 16.
Proof. reflexivity. Qed.

(* ---------- REST front: /api/v1/slot-to-cid/{slot} and /api/v1/sig-to-cid/{sig} (api.go) ---------- *)
Inductive api_req :=
| ApiNotGet
| ApiSlot (parses : bool) (epoch_loaded : bool) (found : bool)     (* decimal uint64?; its epoch loaded?; slot in index? *)
| ApiSig (parses : bool) (n_epochs : nat) (found : bool)           (* base58 of 64 bytes?; loaded epochs; some epoch has it? *)
| ApiOther.
Inductive api_reply := Status (code : N) | ApiPanic (site : nat).
(* search_guarded: the epoch search answers "not found" for an empty epoch list instead of indexing it *)
Definition api_handle (search_guarded : bool) (r : api_req) : api_reply :=
  match r with
  | ApiNotGet => Status 405
  | ApiSlot false _ _ => Status 400
  | ApiSlot true false _ => Status 404
  | ApiSlot true true f => if f then Status 200 else Status 404
  | ApiSig false _ _ => Status 400
  | ApiSig true O _ => if search_guarded then Status 404 else ApiPanic 14
  | ApiSig true (S _) f => if f then Status 200 else Status 404
  | ApiOther => Status 404
  end.
Theorem api_never_panics r : forall s, api_handle true r <> ApiPanic s.
Proof. intros s. destruct r as [|[] [] []|[] [|n] []|]; discriminate. Qed.
Lemma api_unguarded_search_panics : api_handle false (ApiSig true 0 false) = ApiPanic 14.
Proof. reflexivity. Qed.

(* ---------- checker ---------- *)
Inductive case :=
| CHttp (epochs_loaded : bool) (m : method) (p : params) (observed : reply)
| CGrpc (has_txs : bool) (f : option grpc_filter) (observed : grpc_outcome)
| CRange (loaded : N) (held : N) (indexed : bool) (start : N) (e : option N) (observed : grpc_outcome)
| CApi (r : api_req) (observed : api_reply).

Definition reply_eqb (a b : reply) : bool :=
  match a, b with
  | RProceeds, RProceeds | RInvalidParams, RInvalidParams | RMethodNotFound, RMethodNotFound => true
  | RPanic _, RPanic _ => true
  | _, _ => false
  end.
Definition grpc_eqb (a b : grpc_outcome) : bool :=
  match a, b with GStreams, GStreams | GInvalidArgument, GInvalidArgument | GSpins, GSpins => true | GPanic _, GPanic _ => true | _, _ => false end.
Definition case_ok (c : case) : bool :=
  match c with
  | CHttp e m p o => reply_eqb (handle true e m p) o
  | CGrpc h f o => grpc_eqb (grpc_stream_txs true true h f) o
  | CRange l hd ix st e o => grpc_eqb (grpc_stream_window true true l hd ix st e) o
  | CApi r o => match api_handle true r, o with Status a, Status b => N.eqb a b | ApiPanic _, ApiPanic _ => true | _, _ => false end
  end.
Fixpoint bad_from (i : nat) (cs : list case) : list nat :=
  match cs with [] => [] | c :: t => if case_ok c then bad_from (S i) t else i :: bad_from (S i) t end.
Definition check (cs : list case) : list nat := bad_from 0 cs.
