(* C12 (decoder part): the fast IPLD node decoders of ipld/ipldbindcode/cbor.go never panic once every
   type assertion / slice expression is guarded — on every CBOR item and on every byte string; and the
   pinned (unguarded) decoders do panic, with concrete witness bytes for each of the seven sites.

   Model: C11_Nodes.v ([guarded site] = the assertion at [site] is checked and returns an error).
   Lemma names for Properties/C12.v:
     C12dec_panic_only_at_unguarded_site      (every kind, item level)
     C12dec_bytes_panic_only_at_unguarded_site (every kind, byte level)
     C12dec_total_<kind>, C12dec_bytes_total_<kind>, C12dec_bytes_total (dispatcher)
     C12dec_refuted_block_meta, C12dec_refuted_entry_hash, C12dec_refuted_tx_data, C12dec_refuted_tx_metadata,
     C12dec_refuted_rewards_data, C12dec_refuted_link_empty_tag42, C12dec_refuted_block_rewards_empty_tag42 *)
From Coq Require Import List Arith Lia Bool PeanoNat NArith ZArith.
Import ListNotations.
Require Import YF.Cbor YF.C11_Nodes YF.Generated.ConstsC11.
Local Open Scope N_scope.

Section Total.
Variable cid_len : list N -> option nat.
Variable guarded : N -> bool.

(* an outcome that is a panic only at a site the code does not guard *)
Definition pg {A : Type} (o : outcome A) : Prop := forall s, o = Panic s -> guarded s = false.

Lemma pg_ok {A : Type} (a : A) : pg (Ok a).
Proof. intros s H. discriminate. Qed.
Lemma pg_err {A : Type} e : pg (@Err A e).
Proof. intros s H. discriminate. Qed.
Lemma pg_bind {A B : Type} (o : outcome A) (f : A -> outcome B) : pg o -> (forall a, pg (f a)) -> pg (bind o f).
Proof.
  intros Ho Hf s H. destruct o as [a|e|s']; cbn [bind] in H.
  - exact (Hf a s H).
  - discriminate.
  - inversion H; subst. apply Ho. reflexivity.
Qed.
Lemma pg_assert_fail {A : Type} site : pg (@assert_fail guarded A site).
Proof.
  intros s H. unfold assert_fail in H. destruct (guarded site) eqn:E; [discriminate|].
  inversion H; subst. exact E.
Qed.
Lemma pg_mapM {A B : Type} (f : A -> outcome B) l : (forall a, pg (f a)) -> pg (mapM f l).
Proof.
  intros Hf. induction l as [|x r IH]; cbn [mapM]; [apply pg_ok|].
  apply pg_bind; [apply Hf|intros y]. apply pg_bind; [exact IH|intros t]. apply pg_ok.
Qed.

Lemma pg_get_int arr i : pg (C11_Nodes.get_int arr i).
Proof. unfold C11_Nodes.get_int. destruct (nth_error arr i) as [it|]; [|apply pg_err]. destruct (to_u64 it); [apply pg_ok|apply pg_err]. Qed.
Lemma pg_get_opt_int arr i : pg (get_opt_int arr i).
Proof.
  unfold get_opt_int. destruct (nth_error arr i) as [it|]; [|apply pg_ok].
  destruct it; try apply pg_ok; cbn [to_u64]; try apply pg_err.
  destruct (n <? two63); [apply pg_ok|apply pg_err].
Qed.
Lemma pg_dec_link site it : pg (dec_link cid_len guarded site it).
Proof.
  unfold dec_link. destruct (as_tag it) as [[t c]|]; [|apply pg_err].
  destruct (negb (t =? 42)); [apply pg_err|].
  destruct c; try apply pg_err. destruct l as [|b r]; [apply pg_assert_fail|].
  destruct (cid_len r); [apply pg_ok|apply pg_err].
Qed.
Lemma pg_dec_link_list it : pg (dec_link_list cid_len guarded it).
Proof. unfold dec_link_list. destruct it; try apply pg_err; [|apply pg_ok]. apply pg_mapM. intros a. apply pg_dec_link. Qed.
Lemma pg_get_links arr i : pg (get_links cid_len guarded arr i).
Proof. unfold get_links. destruct (nth_error arr i); [apply pg_dec_link_list|apply pg_err]. Qed.

Ltac pg_step :=
  first
    [ apply pg_ok | apply pg_err | apply pg_assert_fail | apply pg_get_int | apply pg_get_opt_int
    | apply pg_get_links | apply pg_dec_link | apply pg_dec_link_list
    | apply pg_bind; [|intros ?]
    | match goal with |- pg (if ?b then _ else _) => destruct b end
    | match goal with |- pg (match ?x with _ => _ end) => destruct x end ].

Lemma pg_un_dataframe arr : pg (un_dataframe cid_len guarded arr).
Proof. unfold un_dataframe. repeat pg_step. Qed.
Lemma pg_get_frame site arr i : pg (get_frame cid_len guarded site arr i).
Proof. unfold get_frame. destruct (nth_error arr i) as [it|]; [|apply pg_err]. destruct it; try apply pg_assert_fail. apply pg_un_dataframe. Qed.
Lemma pg_un_transaction arr : pg (un_transaction cid_len guarded arr).
Proof. unfold un_transaction. repeat first [apply pg_get_frame | pg_step]. Qed.
Lemma pg_un_entry arr : pg (un_entry cid_len guarded arr).
Proof. unfold un_entry. repeat pg_step. Qed.
Lemma pg_dec_shredding it : pg (dec_shredding it).
Proof. unfold dec_shredding. destruct it; try apply pg_err. repeat pg_step. Qed.
Lemma pg_un_slotmeta m : pg (un_slotmeta m).
Proof. unfold un_slotmeta. repeat pg_step. Qed.
Lemma pg_un_block arr : pg (un_block cid_len guarded arr).
Proof.
  unfold un_block.
  repeat first [apply pg_un_slotmeta | apply pg_mapM; intros ?; apply pg_dec_shredding | pg_step].
Qed.
Lemma pg_un_subset arr : pg (un_subset cid_len guarded arr).
Proof. unfold un_subset. repeat pg_step. Qed.
Lemma pg_un_epoch arr : pg (un_epoch cid_len guarded arr).
Proof. unfold un_epoch. repeat pg_step. Qed.
Lemma pg_un_rewards arr : pg (un_rewards cid_len guarded arr).
Proof. unfold un_rewards. repeat first [apply pg_get_frame | pg_step]. Qed.

Lemma pg_top_arr i : pg (top_arr i).
Proof.
  induction i; cbn [top_arr]; try apply pg_err; try apply pg_ok.
  destruct (t <? 4); [apply pg_err|exact IHi].
Qed.
Lemma pg_unmarshal {A : Type} (un : list item -> outcome A) i : (forall arr, pg (un arr)) -> pg (unmarshal un i).
Proof.
  intros H. unfold unmarshal. destruct (lib_ok i); [|apply pg_err].
  apply pg_bind; [apply pg_top_arr|intros arr; apply H].
Qed.
Lemma pg_check_kind {A : Type} (kind : A -> Z) k o : pg o -> pg (check_kind kind k o).
Proof. intros H. unfold check_kind. apply pg_bind; [exact H|intros x]. destruct (kind x =? k)%Z; [apply pg_ok|apply pg_err]. Qed.
Lemma pg_on_bytes {A : Type} (f : item -> outcome A) bs : (forall i, pg (f i)) -> pg (on_bytes f bs).
Proof. intros H. unfold on_bytes. destruct (parse_bytes bs) as [[i r]|]; [apply H|apply pg_err]. Qed.

Lemma pg_fast_decode_transaction i : pg (fast_decode_transaction cid_len guarded i).
Proof. apply pg_check_kind, pg_unmarshal, pg_un_transaction. Qed.
Lemma pg_fast_decode_entry i : pg (fast_decode_entry cid_len guarded i).
Proof. apply pg_check_kind, pg_unmarshal, pg_un_entry. Qed.
Lemma pg_fast_decode_block i : pg (fast_decode_block cid_len guarded i).
Proof. apply pg_check_kind, pg_unmarshal, pg_un_block. Qed.
Lemma pg_fast_decode_subset i : pg (fast_decode_subset cid_len guarded i).
Proof. apply pg_check_kind, pg_unmarshal, pg_un_subset. Qed.
Lemma pg_fast_decode_epoch i : pg (fast_decode_epoch cid_len guarded i).
Proof. apply pg_check_kind, pg_unmarshal, pg_un_epoch. Qed.
Lemma pg_fast_decode_rewards i : pg (fast_decode_rewards cid_len guarded i).
Proof. apply pg_check_kind, pg_unmarshal, pg_un_rewards. Qed.
Lemma pg_fast_decode_dataframe i : pg (fast_decode_dataframe cid_len guarded i).
Proof. apply pg_check_kind, pg_unmarshal, pg_un_dataframe. Qed.

Lemma pg_fast_decode k i : pg (fast_decode cid_len guarded k i).
Proof.
  unfold fast_decode.
  repeat match goal with |- pg (if ?b then _ else _) => destruct b end;
    try apply pg_err; (apply pg_bind; [|intros ?; apply pg_ok]).
  - apply pg_fast_decode_transaction.
  - apply pg_fast_decode_entry.
  - apply pg_fast_decode_block.
  - apply pg_fast_decode_subset.
  - apply pg_fast_decode_epoch.
  - apply pg_fast_decode_rewards.
  - apply pg_fast_decode_dataframe.
Qed.

(* every kind, every item: a panic can only come from a site that is not guarded *)
Theorem C12dec_panic_only_at_unguarded_site : forall k i s,
  fast_decode cid_len guarded k i = Panic s -> guarded s = false.
Proof. intros k i s. apply pg_fast_decode. Qed.

(* every kind, every byte string *)
Theorem C12dec_bytes_panic_only_at_unguarded_site : forall k bs s,
  fast_decode_bytes cid_len guarded k bs = Panic s -> guarded s = false.
Proof. intros k bs s. unfold fast_decode_bytes. apply pg_on_bytes. intros i. apply pg_fast_decode. Qed.

End Total.

(* ---------- totality of the repaired decoders: all bytes, no panic ---------- *)
Section Repaired.
Variable cid_len : list N -> option nat.
Variable guarded : N -> bool.
Hypothesis all_sites_guarded : forall s, guarded s = true.

Lemma pg_total {A : Type} (o : outcome A) : pg guarded o -> forall s, o <> Panic s.
Proof. intros H s E. specialize (H s E). rewrite all_sites_guarded in H. discriminate. Qed.

Theorem C12dec_total_transaction : forall i s, fast_decode_transaction cid_len guarded i <> Panic s.
Proof. intros i. apply pg_total, pg_fast_decode_transaction. Qed.
Theorem C12dec_total_entry : forall i s, fast_decode_entry cid_len guarded i <> Panic s.
Proof. intros i. apply pg_total, pg_fast_decode_entry. Qed.
Theorem C12dec_total_block : forall i s, fast_decode_block cid_len guarded i <> Panic s.
Proof. intros i. apply pg_total, pg_fast_decode_block. Qed.
Theorem C12dec_total_subset : forall i s, fast_decode_subset cid_len guarded i <> Panic s.
Proof. intros i. apply pg_total, pg_fast_decode_subset. Qed.
Theorem C12dec_total_epoch : forall i s, fast_decode_epoch cid_len guarded i <> Panic s.
Proof. intros i. apply pg_total, pg_fast_decode_epoch. Qed.
Theorem C12dec_total_rewards : forall i s, fast_decode_rewards cid_len guarded i <> Panic s.
Proof. intros i. apply pg_total, pg_fast_decode_rewards. Qed.
Theorem C12dec_total_dataframe : forall i s, fast_decode_dataframe cid_len guarded i <> Panic s.
Proof. intros i. apply pg_total, pg_fast_decode_dataframe. Qed.

Theorem C12dec_bytes_total_transaction : forall bs s, fast_decode_bytes_transaction cid_len guarded bs <> Panic s.
Proof. intros bs. apply pg_total, pg_on_bytes. intros i. apply pg_fast_decode_transaction. Qed.
Theorem C12dec_bytes_total_entry : forall bs s, fast_decode_bytes_entry cid_len guarded bs <> Panic s.
Proof. intros bs. apply pg_total, pg_on_bytes. intros i. apply pg_fast_decode_entry. Qed.
Theorem C12dec_bytes_total_block : forall bs s, fast_decode_bytes_block cid_len guarded bs <> Panic s.
Proof. intros bs. apply pg_total, pg_on_bytes. intros i. apply pg_fast_decode_block. Qed.
Theorem C12dec_bytes_total_subset : forall bs s, fast_decode_bytes_subset cid_len guarded bs <> Panic s.
Proof. intros bs. apply pg_total, pg_on_bytes. intros i. apply pg_fast_decode_subset. Qed.
Theorem C12dec_bytes_total_epoch : forall bs s, fast_decode_bytes_epoch cid_len guarded bs <> Panic s.
Proof. intros bs. apply pg_total, pg_on_bytes. intros i. apply pg_fast_decode_epoch. Qed.
Theorem C12dec_bytes_total_rewards : forall bs s, fast_decode_bytes_rewards cid_len guarded bs <> Panic s.
Proof. intros bs. apply pg_total, pg_on_bytes. intros i. apply pg_fast_decode_rewards. Qed.
Theorem C12dec_bytes_total_dataframe : forall bs s, fast_decode_bytes_dataframe cid_len guarded bs <> Panic s.
Proof. intros bs. apply pg_total, pg_on_bytes. intros i. apply pg_fast_decode_dataframe. Qed.

Theorem C12dec_bytes_total : forall k bs s, fast_decode_bytes cid_len guarded k bs <> Panic s.
Proof. intros k bs. apply pg_total. unfold fast_decode_bytes. apply pg_on_bytes. intros i. apply pg_fast_decode. Qed.
End Repaired.

(* ---------- the pinned decoders (no site guarded) do panic: witness bytes, one per site ---------- *)
Definition link_bytes : list N :=
  [216; 42; 88; 37; 0; 1; 113; 18; 32; 1; 2; 3; 4; 5; 6; 7; 8; 9; 10; 11; 12; 13; 14; 15; 16; 17; 18; 19; 20; 21; 22; 23; 24;
   25; 26; 27; 28; 29; 30; 31; 32].
(* Block [2, 5, [], [], 7, link]: meta is not a list *)
Definition w_block_meta : list N := [134; 2; 5; 128; 128; 7] ++ link_bytes.
(* Entry [1, 5, 77, []]: hash is not a byte string *)
Definition w_entry_hash : list N := [132; 1; 5; 24; 77; 128].
(* Transaction [0, 5, [6, null, null, null, h'01'], 9]: data is not a list *)
Definition w_tx_data : list N := [132; 0; 5; 133; 6; 246; 246; 246; 65; 1; 9].
(* Transaction [0, [6, null, null, null, h'01'], 5, 9]: metadata is not a list *)
Definition w_tx_metadata : list N := [132; 0; 133; 6; 246; 246; 246; 65; 1; 5; 9].
(* Rewards [5, 5, "x"]: data is not a list *)
Definition w_rewards_data : list N := [131; 5; 5; 97; 120].
(* Entry [1, 5, h'01', [42(h'')]]: a link whose tag-42 byte string is empty *)
Definition w_link_empty : list N := [132; 1; 5; 65; 1; 129; 216; 42; 64].
(* Block [2, 5, [], [], [1, 2, 3], 42(h'')]: rewards link with empty content *)
Definition w_block_rewards_empty : list N := [134; 2; 5; 128; 128; 131; 1; 2; 3; 216; 42; 64].

Theorem C12dec_refuted_block_meta :
  exists bs, fast_decode_bytes_block cid_len_impl none_guarded bs = Panic site_block_meta.
Proof. exists w_block_meta. vm_compute. reflexivity. Qed.
Theorem C12dec_refuted_entry_hash :
  exists bs, fast_decode_bytes_entry cid_len_impl none_guarded bs = Panic site_entry_hash.
Proof. exists w_entry_hash. vm_compute. reflexivity. Qed.
Theorem C12dec_refuted_tx_data :
  exists bs, fast_decode_bytes_transaction cid_len_impl none_guarded bs = Panic site_tx_data.
Proof. exists w_tx_data. vm_compute. reflexivity. Qed.
Theorem C12dec_refuted_tx_metadata :
  exists bs, fast_decode_bytes_transaction cid_len_impl none_guarded bs = Panic site_tx_metadata.
Proof. exists w_tx_metadata. vm_compute. reflexivity. Qed.
Theorem C12dec_refuted_rewards_data :
  exists bs, fast_decode_bytes_rewards cid_len_impl none_guarded bs = Panic site_rewards_data.
Proof. exists w_rewards_data. vm_compute. reflexivity. Qed.
Theorem C12dec_refuted_link_empty_tag42 :
  exists bs, fast_decode_bytes_entry cid_len_impl none_guarded bs = Panic site_link_empty.
Proof. exists w_link_empty. vm_compute. reflexivity. Qed.
Theorem C12dec_refuted_block_rewards_empty_tag42 :
  exists bs, fast_decode_bytes_block cid_len_impl none_guarded bs = Panic site_block_rewards_empty.
Proof. exists w_block_rewards_empty. vm_compute. reflexivity. Qed.

(* the same witnesses are answered with an error once the sites are guarded *)
Theorem C12dec_witnesses_are_errors_when_guarded :
  (exists e, fast_decode_bytes_block cid_len_impl all_guarded w_block_meta = Err e) /\
  (exists e, fast_decode_bytes_entry cid_len_impl all_guarded w_entry_hash = Err e) /\
  (exists e, fast_decode_bytes_transaction cid_len_impl all_guarded w_tx_data = Err e) /\
  (exists e, fast_decode_bytes_transaction cid_len_impl all_guarded w_tx_metadata = Err e) /\
  (exists e, fast_decode_bytes_rewards cid_len_impl all_guarded w_rewards_data = Err e) /\
  (exists e, fast_decode_bytes_entry cid_len_impl all_guarded w_link_empty = Err e) /\
  (exists e, fast_decode_bytes_block cid_len_impl all_guarded w_block_rewards_empty = Err e).
Proof. repeat split; eexists; vm_compute; reflexivity. Qed.

Print Assumptions C12dec_bytes_total.
Print Assumptions C12dec_bytes_panic_only_at_unguarded_site.
Print Assumptions C12dec_refuted_block_meta.
