From Coq Require Import List Arith Lia Bool PeanoNat.
Import ListNotations.

Section Eytz.
Variable A : Type.
Variable d : A.

Fixpoint upd (l : list A) (i : nat) (x : A) : list A :=
  match l, i with
  | [], _ => []
  | _ :: t, O => x :: t
  | h :: t, S j => h :: upd t j x
  end.

Lemma upd_length l i x : length (upd l i x) = length l.
Proof. revert i; induction l as [|h t IH]; intros [|j]; simpl; auto. Qed.

Lemma nth_upd_same l i x : i < length l -> nth i (upd l i x) d = x.
Proof. revert i; induction l as [|h t IH]; intros [|j] H; simpl in *; try lia; auto. apply IH; lia. Qed.

Lemma nth_upd_other l i j x : i <> j -> nth j (upd l i x) d = nth j l d.
Proof. revert i j; induction l as [|h t IH]; intros [|i] [|j] H; simpl; auto; try lia. Qed.

(* build.go:eytzinger, n = len(in) *)
Fixpoint go (fuel : nat) (inp out : list A) (i k : nat) : nat * list A :=
  match fuel with
  | O => (i, out)
  | S f =>
    if k <=? length inp then
      let '(i1, o1) := go f inp out i (2*k) in
      go f inp (upd o1 (k-1) (nth i1 inp d)) (S i1) (2*k+1)
    else (i, out)
  end.

(* in-order list of heap positions (1-based) of the implicit tree restricted to 1..n *)
Fixpoint inorder (n fuel k : nat) : list nat :=
  match fuel with
  | O => []
  | S f => if k <=? n then inorder n f (2*k) ++ k :: inorder n f (2*k+1) else []
  end.

Definition apply_updates (inp : list A) (us : list (nat * nat)) (out : list A) : list A :=
  fold_left (fun o u => upd o (fst u - 1) (nth (snd u) inp d)) us out.

Lemma apply_updates_app inp us vs out :
  apply_updates inp (us ++ vs) out = apply_updates inp vs (apply_updates inp us out).
Proof. unfold apply_updates; apply fold_left_app. Qed.

Lemma combine_app_seq (l1 l2 : list nat) i :
  combine (l1 ++ l2) (seq i (length (l1 ++ l2))) =
  combine l1 (seq i (length l1)) ++ combine l2 (seq (i + length l1) (length l2)).
Proof.
  revert i; induction l1 as [|a l1 IH]; intros i; simpl.
  - now rewrite Nat.add_0_r.
  - f_equal. rewrite IH. do 2 f_equal. f_equal. lia.
Qed.

Lemma go_spec f inp out i k :
  go f inp out i k =
  (i + length (inorder (length inp) f k),
   apply_updates inp (combine (inorder (length inp) f k) (seq i (length (inorder (length inp) f k)))) out).
Proof.
  revert out i k; induction f as [|f IH]; intros out i k; cbn [go inorder].
  - cbn. now rewrite Nat.add_0_r.
  - destruct (k <=? length inp) eqn:Hk.
    + rewrite IH. set (L := inorder (length inp) f (2*k)).
      rewrite IH. set (R := inorder (length inp) f (2*k+1)). f_equal.
      * rewrite app_length; cbn [length]; lia.
      * change (L ++ k :: R) with (L ++ [k] ++ R).
        rewrite combine_app_seq, apply_updates_app.
        rewrite combine_app_seq, apply_updates_app.
        cbn [length combine seq]. unfold apply_updates at 3. cbn [fold_left fst snd].
        replace (i + length L + 1) with (S (i + length L)) by lia. reflexivity.
    + cbn. now rewrite Nat.add_0_r.
Qed.

Lemma apply_updates_length inp us out : length (apply_updates inp us out) = length out.
Proof. revert out; induction us as [|u us IH]; intros out; simpl; auto. unfold apply_updates in *; simpl. rewrite IH. apply upd_length. Qed.

Lemma apply_updates_notin inp us out q :
  Forall (fun u => 1 <= fst u) us ->
  ~ In (S q) (map fst us) -> nth q (apply_updates inp us out) d = nth q out d.
Proof.
  revert out; induction us as [|[p j] us IH]; intros out Hpos H; cbn; auto.
  inversion Hpos as [|? ? Hp Hpos']; subst; cbn in *.
  unfold apply_updates in *; cbn in *. rewrite IH by tauto.
  apply nth_upd_other. intros E. apply H. left. lia.
Qed.

Lemma apply_updates_in inp us out p j :
  Forall (fun u => 1 <= fst u) us ->
  NoDup (map fst us) -> In (p, j) us -> p <= length out ->
  nth (p - 1) (apply_updates inp us out) d = nth j inp d.
Proof.
  revert out; induction us as [|[p' j'] us IH]; intros out Hpos ND Hin Hp; cbn in *; [tauto|].
  inversion ND as [|? ? Hni ND']; subst.
  inversion Hpos as [|? ? Hp1 Hpos']; subst; cbn in *.
  destruct Hin as [E|Hin].
  - inversion E; subst.
    change (nth (p - 1) (apply_updates inp us (upd out (p - 1) (nth j inp d))) d = nth j inp d).
    rewrite apply_updates_notin; auto.
    + apply nth_upd_same. lia.
    + replace (S (p - 1)) with p by lia. exact Hni.
  - change (nth (p - 1) (apply_updates inp us (upd out (p' - 1) (nth j' inp d))) d = nth j inp d).
    apply IH; auto. rewrite upd_length. lia.
Qed.

End Eytz.
