From Coq Require Import List Arith Lia Bool PeanoNat.
Import ListNotations.
Require Import Gsfa.

Section P.
Variable entry : Type.
Variable B P : nat.
Notation st := (st entry).
Notation rec := (rec entry).

Definition chain_ok (lg : list rec) : Prop :=
  forall i r, nth_error lg i = Some r -> forall j, r_prev entry r = Some j -> j < i.

Lemma chain_ok_app lg r :
  chain_ok lg -> (forall j, r_prev entry r = Some j -> j < length lg) -> chain_ok (lg ++ [r]).
Proof.
  intros H Hr i r' Hn j Hj. destruct (Nat.lt_ge_cases i (length lg)) as [Hlt|Hge].
  - rewrite nth_error_app1 in Hn by auto. eapply H; eauto.
  - rewrite nth_error_app2 in Hn by auto. destruct (i - length lg) as [|x] eqn:E.
    + cbn in Hn. inversion Hn; subst. apply Hr in Hj. lia.
    + cbn in Hn. destruct x; discriminate.
Qed.

(* walk does not depend on fuel once fuel > index, nor on records appended after the index *)
Lemma walk_stable lg : chain_ok lg ->
  forall i f1 f2 ext, i < f1 -> i < f2 -> i < length lg ->
  walk entry f1 (lg ++ ext) (Some i) = walk entry f2 lg (Some i).
Proof.
  intros Hc i. induction i as [i IH] using lt_wf_ind. intros f1 f2 ext H1 H2 Hi.
  destruct f1 as [|f1]; [lia|]. destruct f2 as [|f2]; [lia|]. cbn [walk].
  rewrite nth_error_app1 by auto.
  destruct (nth_error lg i) as [r|] eqn:E; auto. f_equal.
  destruct (r_prev entry r) as [j|] eqn:Ej.
  - pose proof (Hc i r E j Ej) as Hj. apply IH; lia.
  - destruct f1, f2; reflexivity.
Qed.

Definition wf (s : st) : Prop :=
  chain_ok (log entry s) /\ forall k i, heads entry s k = Some i -> i < length (log entry s).

Lemma walk_unfold f lg i :
  walk entry (S f) lg (Some i) =
  match nth_error lg i with Some r => r_entries entry r ++ walk entry f lg (r_prev entry r) | None => [] end.
Proof. reflexivity. Qed.

Lemma walk_none f lg : walk entry f lg None = [].
Proof. destruct f; reflexivity. Qed.

Lemma get_flush1_same s k b : wf s -> b <> [] ->
  get entry (flush1 entry s (k, b)) k = rev b ++ get entry s k.
Proof.
  intros [Hc Hh] Hb. unfold flush1. destruct b as [|e b']; [congruence|]. set (b := e :: b') in *.
  unfold get. cbn [log heads]. unfold upd. rewrite Nat.eqb_refl.
  rewrite walk_unfold. rewrite nth_error_app2 by lia. rewrite Nat.sub_diag. cbn [nth_error r_entries r_prev].
  f_equal. destruct (heads entry s k) as [i|] eqn:E.
  - pose proof (Hh k i E). rewrite app_length. cbn [length]. apply walk_stable; auto; lia.
  - now rewrite !walk_none.
Qed.

Lemma get_flush1_other s k k' b : wf s -> k' <> k ->
  get entry (flush1 entry s (k, b)) k' = get entry s k'.
Proof.
  intros [Hc Hh] Hk. unfold flush1. destruct b as [|e b']; [reflexivity|].
  unfold get. cbn [log heads]. unfold upd. replace (k' =? k) with false by (symmetry; apply Nat.eqb_neq; auto).
  destruct (heads entry s k') as [i|] eqn:E.
  - pose proof (Hh k' i E). rewrite app_length. apply walk_stable; auto; cbn; lia.
  - now rewrite !walk_none.
Qed.

Lemma wf_flush1 s kb : wf s -> wf (flush1 entry s kb).
Proof.
  intros [Hc Hh]. destruct kb as [k b]. unfold flush1. destruct b as [|e b']; [split; auto|].
  split; cbn [log heads].
  - apply chain_ok_app; auto. cbn [r_prev]. intros j Hj. eapply Hh; eauto.
  - intros k0 i. unfold upd. rewrite app_length. cbn [length]. destruct (k0 =? k).
    + intros E; inversion E; lia.
    + intros E. apply Hh in E. lia.
Qed.

Lemma wf_flush_all l : forall s, wf s -> wf (flush_all entry s l).
Proof. induction l as [|kb l IH]; intros s H; cbn; auto. apply IH, wf_flush1, H. Qed.

Lemma get_flush_all l : forall s k, wf s ->
  rev (get entry (flush_all entry s l) k) = rev (get entry s k) ++ pend entry k l.
Proof.
  induction l as [|[k0 b] l IH]; intros s k H; cbn [flush_all fold_left pend flat_map fst snd].
  - now rewrite app_nil_r.
  - change (fold_left (flush1 entry) l (flush1 entry s (k0, b))) with (flush_all entry (flush1 entry s (k0, b)) l).
    rewrite IH by (apply wf_flush1; auto). fold (pend entry k l).
    destruct (Nat.eqb_spec k0 k) as [E|E].
    + subst k0. destruct b as [|e b'].
      * cbn. reflexivity.
      * rewrite get_flush1_same by (auto; discriminate). rewrite rev_app_distr, rev_involutive.
        now rewrite <- app_assoc.
    + rewrite get_flush1_other by auto. reflexivity.
Qed.

(* flushes do not touch accum / chan / parked *)
Lemma flush1_frame s kb :
  accum entry (flush1 entry s kb) = accum entry s /\
  chan entry (flush1 entry s kb) = chan entry s /\
  parked entry (flush1 entry s kb) = parked entry s.
Proof. destruct kb as [k b]. unfold flush1. destruct b; auto. Qed.

Lemma flush_all_frame l : forall s,
  accum entry (flush_all entry s l) = accum entry s /\
  chan entry (flush_all entry s l) = chan entry s /\
  parked entry (flush_all entry s l) = parked entry s.
Proof.
  induction l as [|kb l IH]; intros s; [cbn; auto|].
  change (flush_all entry s (kb :: l)) with (flush_all entry (flush1 entry s kb) l).
  destruct (IH (flush1 entry s kb)) as [A [C Pk]]. destruct (flush1_frame s kb) as [A1 [C1 P1]].
  rewrite A, C, Pk, A1, C1, P1. auto.
Qed.

Lemma pend_app k l1 l2 : pend entry k (l1 ++ l2) = pend entry k l1 ++ pend entry k l2.
Proof. unfold pend. apply flat_map_app. Qed.

(* --- steps preserve the view --- *)
Lemma view_push1_same s k e : view entry (push1 entry B s k e) k = view entry s k ++ [e].
Proof.
  unfold view, push1, get. destruct (accum entry s k) as [|a cur] eqn:E.
  - cbn [accum chan parked log heads]. unfold upd. rewrite Nat.eqb_refl. now rewrite !app_nil_r, <- !app_assoc.
  - destruct (B <=? length ((a :: cur) ++ [e])); cbn [accum chan parked log heads]; unfold upd; rewrite Nat.eqb_refl.
    + rewrite pend_app. cbn [pend flat_map fst snd]. rewrite Nat.eqb_refl. rewrite !app_nil_r.
      now rewrite <- !app_assoc.
    + now rewrite <- !app_assoc.
Qed.

Lemma view_push1_other s k k' e : k' <> k -> view entry (push1 entry B s k e) k' = view entry s k'.
Proof.
  intros Hk. unfold view, push1, get. assert (Hf : (k' =? k) = false) by (apply Nat.eqb_neq; auto).
  destruct (accum entry s k) as [|a cur] eqn:E.
  - cbn [accum chan parked log heads]. unfold upd. now rewrite Hf.
  - destruct (B <=? length ((a :: cur) ++ [e])); cbn [accum chan parked log heads]; unfold upd; rewrite Hf; auto.
    rewrite pend_app. cbn [pend flat_map fst snd]. replace (k =? k') with false by (symmetry; apply Nat.eqb_neq; auto).
    now rewrite !app_nil_r.
Qed.

Lemma wf_push1 s k e : wf s -> wf (push1 entry B s k e).
Proof.
  intros H. unfold push1. destruct (accum entry s k); [exact H|]. destruct (B <=? _); exact H.
Qed.

Lemma view_bg_step s k : wf s -> view entry (bg_step entry P s) k = view entry s k.
Proof.
  intros H. unfold bg_step. destruct (chan entry s) as [|[k0 b] rest] eqn:E; auto.
  unfold view at 2. rewrite E.
  destruct ((length (parked entry s) =? P) || has_key entry k0 (parked entry s)).
  - set (s0 := {| accum := accum entry s; chan := rest; parked := parked entry s; log := log entry s; heads := heads entry s |}).
    assert (H0 : wf s0) by exact H.
    destruct (flush_all_frame (parked entry s0) s0) as [A [C Pk]].
    unfold view, get. cbn [accum chan parked log heads]. 
    change (walk entry (S (length (log entry (flush_all entry s0 (parked entry s0))))) (log entry (flush_all entry s0 (parked entry s0))) (heads entry (flush_all entry s0 (parked entry s0)) k))
      with (get entry (flush_all entry s0 (parked entry s0)) k).
    rewrite get_flush_all by auto. rewrite A, C. cbn [accum chan parked].
    change (get entry s0 k) with (get entry s k). cbn [app pend flat_map fst snd].
    destruct (k0 =? k); cbn [app]; now rewrite <- ?app_assoc, ?app_nil_r.
  - unfold view, get. cbn [accum chan parked log heads]. rewrite pend_app. cbn [pend flat_map fst snd].
    destruct (k0 =? k); cbn [app]; now rewrite <- ?app_assoc, ?app_nil_r.
Qed.

End P.
