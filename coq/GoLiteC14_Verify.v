(* C14 — ipldbindcode.VerifyHash, translated from the Go source on every check, is the model's verify_hash
   (C14_Hash.v): nil exactly when the CRC64-ISO or the legacy FNV-1a checksum of the data equals the recorded hash.
   The two checksum functions are oracles instantiated with the model's crc64 / fnv1a (their agreement with Go's
   hash/crc64 and hash/fnv is what the C14 correspondence runs check). *)
From Coq Require Import List ZArith NArith String Bool Lia.
Import ListNotations.
Require Import YF.GoLite YF.GoLiteLemmas YF.Generated.GoLiteC14 YF.C14_Hash.
Local Open Scope string_scope.
Local Open Scope Z_scope.

Definition ns (l : list Z) : list N := map Z.to_N l.
Definition hash_ext : string -> list val -> option val := fun f args =>
  match f, args with
  | "checksumCrc64", [VInts d] => Some (VInt (Z.of_N (crc64 (ns d))))
  | "checksumFnv", [VInts d] => Some (VInt (Z.of_N (fnv1a (ns d))))
  | _, _ => None
  end.

Section Generic.
Variable prog : program.
Hypothesis prog_VerifyHash : plookup "VerifyHash" prog = Some fn_VerifyHash.

Theorem VerifyHash_is_verify_hash fuel (d : list Z) (h : N) :
  call prog hash_ext fuel "VerifyHash" [VInts d; VInt (Z.of_N h)] =
  RRet (if verify_hash (ns d) h then VNil else VErr "fmt.Errorf").
Proof.
  unfold call. rewrite prog_VerifyHash. unfold fn_VerifyHash. cbn [f_params f_body bind_params]. go_run.
  unfold hash_ext at 1. go_run. rewrite of_N_eqb. unfold verify_hash.
  destruct (N.eqb (crc64 (ns d)) h); cbn [negb orb]; [go_run; reflexivity|].
  go_run. unfold hash_ext at 1. go_run. rewrite of_N_eqb.
  destruct (N.eqb (fnv1a (ns d)) h); cbn [negb]; go_run; reflexivity.
Qed.
End Generic.
