(* C07 — executable checker run on the harness's observations (harness/gsfa/c07_test.go, harness/main/c07reply_test.go).
   It runs the very functions the theorems of Properties/C07.v are about: get_before_until,
   get_before_until_slot (repaired variant, upper = true), reply (repaired variant, sorted = true). *)
From Coq Require Import List Arith Lia Bool PeanoNat NArith ZArith Permutation.
Import ListNotations.
Require Import YF.C07_Model YF.C07_Proofs YF.C07_Reply YF.C07_Slot YF.Generated.ConstsC07.

Lemma epoch_len_pos : (0 < epoch_len)%N.
Proof. reflexivity. Qed.

(* an observed result map: (epoch, entries of that epoch in the order returned), keys in descending order,
   keys with an empty slice dropped. None = the call returned an error. *)
Definition obs := list (N * list entry).

Definition canon (m : list tagged) : obs :=
  map (fun e => (e, map snd (lookup e m))) (sort_desc (keys m)).

Lemma lookup_tag e m t : In t (lookup e m) -> tag t = e.
Proof. unfold lookup. intros H. apply filter_In in H. destruct H as [_ H]. now apply N.eqb_eq. Qed.
Lemma retag e l : (forall t, In t l -> tag t = e) -> map (pair e) (map snd l) = l.
Proof.
  induction l as [|[e' x] l IH]; intros H; [reflexivity|]. cbn.
  assert (E : e' = e) by (apply (H (e', x)); cbn; auto). subst e'. f_equal. apply IH. intros; apply H; cbn; auto.
Qed.
(* reading an observation newest epoch first gives flatten_desc of the model's map *)
Lemma canon_flatten m : concat (map (fun p => map (pair (fst p)) (snd p)) (canon m)) = flatten_desc m.
Proof.
  unfold canon, flatten_desc, flatten_by. rewrite map_map. f_equal. apply map_ext. intros e. cbn.
  apply retag. intros t. apply lookup_tag.
Qed.

Definition entry_eqb (a b : entry) : bool := Nat.eqb (fst a) (fst b) && N.eqb (snd a) (snd b).
Fixpoint list_eqb {A} (eqb : A -> A -> bool) (l1 l2 : list A) : bool :=
  match l1, l2 with
  | [], [] => true
  | x :: t1, y :: t2 => eqb x y && list_eqb eqb t1 t2
  | _, _ => false
  end.
Definition obs_eqb : obs -> obs -> bool :=
  list_eqb (fun a b => N.eqb (fst a) (fst b) && list_eqb entry_eqb (snd a) (snd b)).
Definition oobs_eqb (a b : option obs) : bool :=
  match a, b with Some x, Some y => obs_eqb x y | None, None => true | _, _ => false end.

Lemma list_eqb_eq {A} (eqb : A -> A -> bool) : (forall a b, eqb a b = true -> a = b) ->
  forall l1 l2, list_eqb eqb l1 l2 = true -> l1 = l2.
Proof.
  intros H. induction l1 as [|x t IH]; intros [|y t2] E; cbn in E; try discriminate; [reflexivity|].
  apply andb_true_iff in E. destruct E as [E1 E2]. f_equal; auto.
Qed.
Lemma entry_eqb_eq a b : entry_eqb a b = true -> a = b.
Proof.
  destruct a, b. unfold entry_eqb. cbn. intros E. apply andb_true_iff in E. destruct E as [E1 E2].
  apply Nat.eqb_eq in E1. apply N.eqb_eq in E2. congruence.
Qed.
Lemma obs_eqb_eq a b : obs_eqb a b = true -> a = b.
Proof.
  apply list_eqb_eq. intros [e1 l1] [e2 l2] E. cbn in E. apply andb_true_iff in E. destruct E as [E1 E2].
  apply N.eqb_eq in E1. apply (list_eqb_eq entry_eqb entry_eqb_eq) in E2. congruence.
Qed.

Inductive case :=
| CSig (eps : list epoch) (limit : Z) (before until : option nat) (o : option obs)
    (* GsfaReaderMultiepoch.GetBeforeUntil on readers eps *)
| CSlot (eps : list epoch) (limit : Z) (before until : N) (o : option obs)
    (* GsfaReaderMultiepoch.GetBeforeUntilSlot *)
| CReply (eps : list epoch) (limit : Z) (before until : option nat) (sigs : list nat).
    (* signatures of the JSON-RPC getSignaturesForAddress reply, in reply order *)

Definition case_ok (c : case) : bool :=
  match c with
  | CSig eps limit before until o =>
      oobs_eqb (option_map canon (get_before_until eps limit before until)) o
  | CSlot eps limit before until o =>
      oobs_eqb (option_map canon (get_before_until_slot true epoch_len eps limit before until)) o
  | CReply eps limit before until sigs =>
      match get_before_until eps limit before until with
      | Some m => list_eqb Nat.eqb (map key (reply true (keys m) m)) sigs
      | None => false
      end
  end.

Fixpoint bad_from (i : nat) (cs : list case) : list nat :=
  match cs with [] => [] | c :: t => if case_ok c then bad_from (S i) t else i :: bad_from (S i) t end.
Definition check (cs : list case) : list nat := bad_from 0 cs.

(* what an accepted observation means, in the property's words *)
Theorem csig_accepted eps limit before until o :
  epochs_desc eps -> Forall no_failure eps ->
  case_ok (CSig eps limit before until (Some o)) = true ->
  concat (map (fun p => map (pair (fst p)) (snd p)) o) = slice_spec (Z.to_nat limit) before until (history eps).
Proof.
  intros Hd Hnf E. cbn [case_ok] in E.
  destruct (slice_flat eps limit before until Hd Hnf) as [m [E1 [E2 _]]]. rewrite E1 in E. cbn in E.
  apply obs_eqb_eq in E. subst o. rewrite canon_flatten. exact E2.
Qed.

Theorem creply_accepted eps limit before until sigs :
  epochs_desc eps -> Forall no_failure eps ->
  case_ok (CReply eps limit before until sigs) = true ->
  sigs = map key (slice_spec (Z.to_nat limit) before until (history eps)).
Proof.
  intros Hd Hnf E. cbn [case_ok] in E.
  destruct (get_before_until eps limit before until) as [m|] eqn:Em; [|discriminate].
  apply (list_eqb_eq Nat.eqb) in E; [|intros a b; apply Nat.eqb_eq]. subst sigs. f_equal.
  eapply reply_is_slice; eauto.
Qed.
