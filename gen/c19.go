package main

// C19 translator: the transaction predicate of the gRPC streams (the closure `filterOutTxn` in
// grpc-server.go:processSlotTransactions) is translated, statement by statement, into a program of the small guard
// language of YF.C19_Prog (coq/Generated/FilterProgC19.v). YF.C19_ProgProof proves that the translated program
// computes the filter specification of C19_Stream (keep) and never dereferences a nil optional flag. Anything the
// translator does not recognise is an error: the generated file disappears and Properties/C19.v stops building.
//
// Recognised statements:  if c { return b } | if c { ... } | return b
//   err := getErr(meta); if err != nil { return b }
//   hasOne := false; for _, acc := range filter.AccountInclude { pkey := ...; if txMentionsAccount(&tx, meta, pkey) { hasOne = true; break } }; if !hasOne { return b }
//   for _, acc := range filter.AccountX { pkey := ...; if [!]txMentionsAccount(&tx, meta, pkey) { return b } }
// Recognised conditions:  && || ! ( )  filter ==/!= nil  filter.Vote|Failed ==/!= nil  *filter.Vote|Failed
//   IsSimpleVoteTransaction(&tx)  gsfaReadersLoaded  len(filter.AccountInclude) > 0 | != 0 | == 0

import (
	"fmt"
	"go/ast"
	"go/token"
	"strings"
)

func init() { register("c19", genC19) }

type c19tr struct {
	fset *token.FileSet
}

func (t *c19tr) text(n ast.Node) string { return c12Text(t.fset, n) }

func c19Bool(e ast.Expr) (string, bool) {
	if id, ok := e.(*ast.Ident); ok && (id.Name == "true" || id.Name == "false") {
		return id.Name, true
	}
	return "", false
}

func c19IsSel(e ast.Expr, x, sel string) bool {
	s, ok := e.(*ast.SelectorExpr)
	if !ok || s.Sel.Name != sel {
		return false
	}
	id, ok := s.X.(*ast.Ident)
	return ok && id.Name == x
}

func c19IsNil(e ast.Expr) bool {
	id, ok := e.(*ast.Ident)
	return ok && id.Name == "nil"
}

func (t *c19tr) cond(e ast.Expr) (string, error) {
	switch x := e.(type) {
	case *ast.ParenExpr:
		return t.cond(x.X)
	case *ast.UnaryExpr:
		if x.Op == token.NOT {
			c, err := t.cond(x.X)
			if err != nil {
				return "", err
			}
			return "(BNot " + c + ")", nil
		}
	case *ast.StarExpr:
		if c19IsSel(x.X, "filter", "Vote") {
			return "(BAtom AVoteVal)", nil
		}
		if c19IsSel(x.X, "filter", "Failed") {
			return "(BAtom AFailedVal)", nil
		}
	case *ast.Ident:
		if x.Name == "gsfaReadersLoaded" {
			return "(BAtom AIndexed)", nil
		}
	case *ast.CallExpr:
		if id, ok := x.Fun.(*ast.Ident); ok && id.Name == "IsSimpleVoteTransaction" && len(x.Args) == 1 && t.text(x.Args[0]) == "&tx" {
			return "(BAtom AIsVote)", nil
		}
	case *ast.BinaryExpr:
		switch x.Op {
		case token.LAND, token.LOR:
			a, err := t.cond(x.X)
			if err != nil {
				return "", err
			}
			b, err := t.cond(x.Y)
			if err != nil {
				return "", err
			}
			if x.Op == token.LAND {
				return "(BAnd " + a + " " + b + ")", nil
			}
			return "(BOr " + a + " " + b + ")", nil
		case token.EQL, token.NEQ:
			if c19IsNil(x.Y) {
				atom := ""
				switch {
				case t.text(x.X) == "filter":
					atom = "(BAtom AFilterNil)" // true when nil
				case c19IsSel(x.X, "filter", "Vote"):
					atom = "(BNot (BAtom AVoteSet))"
				case c19IsSel(x.X, "filter", "Failed"):
					atom = "(BNot (BAtom AFailedSet))"
				}
				if atom != "" {
					if x.Op == token.NEQ {
						return "(BNot " + atom + ")", nil
					}
					return atom, nil
				}
			}
			if t.text(x.X) == "len(filter.AccountInclude)" && t.text(x.Y) == "0" {
				if x.Op == token.NEQ {
					return "(BAtom AIncludeNonEmpty)", nil
				}
				return "(BNot (BAtom AIncludeNonEmpty))", nil
			}
		case token.GTR:
			if t.text(x.X) == "len(filter.AccountInclude)" && t.text(x.Y) == "0" {
				return "(BAtom AIncludeNonEmpty)", nil
			}
		}
	}
	return "", fmt.Errorf("unrecognised condition: %s", t.text(e))
}

// single `return b`
func c19SingleReturn(l []ast.Stmt) (string, bool) {
	if len(l) != 1 {
		return "", false
	}
	r, ok := l[0].(*ast.ReturnStmt)
	if !ok || len(r.Results) != 1 {
		return "", false
	}
	return c19Bool(r.Results[0])
}

// mention test `[!]txMentionsAccount(&tx, meta, pkey)`
func (t *c19tr) mention(e ast.Expr) (neg bool, ok bool) {
	if u, isU := e.(*ast.UnaryExpr); isU && u.Op == token.NOT {
		n, ok := t.mention(u.X)
		return !n, ok
	}
	if p, isP := e.(*ast.ParenExpr); isP {
		return t.mention(p.X)
	}
	return false, t.text(e) == "txMentionsAccount(&tx, meta, pkey)"
}

func (t *c19tr) listOf(e ast.Expr) (string, bool) {
	switch {
	case c19IsSel(e, "filter", "AccountInclude"):
		return "LInclude", true
	case c19IsSel(e, "filter", "AccountExclude"):
		return "LExclude", true
	case c19IsSel(e, "filter", "AccountRequired"):
		return "LRequired", true
	}
	return "", false
}

// body of a range loop over an account list: `pkey := solana.MustPublicKeyFromBase58(acc)` then one if
func (t *c19tr) rangeBody(r *ast.RangeStmt) (*ast.IfStmt, error) {
	if r.Value == nil || t.text(r.Value) != "acc" || len(r.Body.List) != 2 {
		return nil, fmt.Errorf("unrecognised loop: %s", t.text(r))
	}
	if t.text(r.Body.List[0]) != "pkey := solana.MustPublicKeyFromBase58(acc)" {
		return nil, fmt.Errorf("unrecognised loop statement: %s", t.text(r.Body.List[0]))
	}
	ifs, ok := r.Body.List[1].(*ast.IfStmt)
	if !ok || ifs.Init != nil || ifs.Else != nil {
		return nil, fmt.Errorf("unrecognised loop statement: %s", t.text(r.Body.List[1]))
	}
	return ifs, nil
}

func (t *c19tr) stmts(l []ast.Stmt) ([]string, error) {
	var out []string
	for i := 0; i < len(l); i++ {
		switch s := l[i].(type) {
		case *ast.ReturnStmt:
			if len(s.Results) == 1 {
				if b, ok := c19Bool(s.Results[0]); ok {
					out = append(out, "SRet "+b)
					continue
				}
			}
			return nil, fmt.Errorf("unrecognised return: %s", t.text(s))
		case *ast.IfStmt:
			if s.Init != nil || s.Else != nil {
				return nil, fmt.Errorf("unrecognised if: %s", t.text(s))
			}
			c, err := t.cond(s.Cond)
			if err != nil {
				return nil, err
			}
			if b, ok := c19SingleReturn(s.Body.List); ok {
				out = append(out, fmt.Sprintf("SIfRet %s %s", c, b))
				continue
			}
			body, err := t.stmts(s.Body.List)
			if err != nil {
				return nil, err
			}
			out = append(out, fmt.Sprintf("SIf %s [%s]", c, strings.Join(body, "; ")))
		case *ast.AssignStmt:
			txt := t.text(s)
			switch txt {
			case "err := getErr(meta)":
				if i+1 < len(l) {
					if ifs, ok := l[i+1].(*ast.IfStmt); ok && ifs.Init == nil && ifs.Else == nil && t.text(ifs.Cond) == "err != nil" {
						if b, ok := c19SingleReturn(ifs.Body.List); ok {
							out = append(out, fmt.Sprintf("SIfRet (BAtom AHasErr) %s", b))
							i++
							continue
						}
					}
				}
			case "hasOne := false":
				if i+2 < len(l) {
					r, ok1 := l[i+1].(*ast.RangeStmt)
					last, ok2 := l[i+2].(*ast.IfStmt)
					if ok1 && ok2 {
						lst, okL := t.listOf(r.X)
						ifs, err := t.rangeBody(r)
						if err != nil {
							return nil, err
						}
						neg, okM := t.mention(ifs.Cond)
						bodyOK := len(ifs.Body.List) == 2 && t.text(ifs.Body.List[0]) == "hasOne = true" && t.text(ifs.Body.List[1]) == "break"
						b, okR := c19SingleReturn(last.Body.List)
						if okL && lst == "LInclude" && okM && !neg && bodyOK && last.Init == nil && last.Else == nil && t.text(last.Cond) == "!hasOne" && okR {
							out = append(out, "SAnyIncludeElseRet "+b)
							i += 2
							continue
						}
					}
				}
			}
			return nil, fmt.Errorf("unrecognised statement: %s", txt)
		case *ast.RangeStmt:
			lst, ok := t.listOf(s.X)
			if !ok {
				return nil, fmt.Errorf("unrecognised loop: %s", t.text(s.X))
			}
			ifs, err := t.rangeBody(s)
			if err != nil {
				return nil, err
			}
			neg, okM := t.mention(ifs.Cond)
			b, okR := c19SingleReturn(ifs.Body.List)
			if !okM || !okR {
				return nil, fmt.Errorf("unrecognised loop body: %s", t.text(ifs))
			}
			out = append(out, fmt.Sprintf("SForRet %s %v %s", lst, neg, b))
		default:
			return nil, fmt.Errorf("unrecognised statement: %s", t.text(l[i]))
		}
	}
	return out, nil
}

// mentionSources translates the body of txMentionsAccount: loops `for _, key := range SRC { if key == pkey { return true } }`
// over the static keys and (inside the protobuf-metadata guard) the loaded address lists, closed by `return false`.
func (t *c19tr) mentionSources(l []ast.Stmt, nested bool) ([]string, error) {
	var out []string
	for i, st := range l {
		switch s := st.(type) {
		case *ast.RangeStmt:
			src := ""
			switch t.text(s.X) {
			case "tx.Message.AccountKeys":
				src = "MStatic"
			case "byteSlicesToKeySlice(m.LoadedReadonlyAddresses)":
				src = "MLoadedReadonly"
			case "byteSlicesToKeySlice(m.LoadedWritableAddresses)":
				src = "MLoadedWritable"
			}
			if src == "" || s.Value == nil || t.text(s.Value) != "key" || len(s.Body.List) != 1 || t.text(s.Body.List[0]) != "if key == pkey { return true }" {
				return nil, fmt.Errorf("txMentionsAccount: unrecognised loop: %s", t.text(s))
			}
			if (src == "MStatic") == nested {
				return nil, fmt.Errorf("txMentionsAccount: %s searched at an unexpected nesting level", src)
			}
			out = append(out, src)
		case *ast.IfStmt:
			if nested || s.Else != nil || s.Init == nil || t.text(s.Init) != "m, ok := meta.(*confirmed_block.TransactionStatusMeta)" || t.text(s.Cond) != "ok && m != nil" {
				return nil, fmt.Errorf("txMentionsAccount: unrecognised statement: %s", t.text(s))
			}
			in, err := t.mentionSources(s.Body.List, true)
			if err != nil {
				return nil, err
			}
			out = append(out, in...)
		case *ast.ReturnStmt:
			if nested || i != len(l)-1 || t.text(s) != "return false" {
				return nil, fmt.Errorf("txMentionsAccount: unrecognised return: %s", t.text(s))
			}
		default:
			return nil, fmt.Errorf("txMentionsAccount: unrecognised statement: %s", t.text(st))
		}
	}
	if !nested {
		if len(l) == 0 || t.text(l[len(l)-1]) != "return false" {
			return nil, fmt.Errorf("txMentionsAccount: does not end with `return false`")
		}
	}
	return out, nil
}

func genC19(repo string) (string, string, error) {
	fset, f, err := parseFile(repo, "grpc-server.go")
	if err != nil {
		return "", "", err
	}
	fd := funcDecl(f, "MultiEpoch", "processSlotTransactions")
	if fd == nil {
		return "", "", fmt.Errorf("processSlotTransactions not found")
	}
	var lit *ast.FuncLit
	ast.Inspect(fd.Body, func(n ast.Node) bool {
		if as, ok := n.(*ast.AssignStmt); ok && len(as.Lhs) == 1 && len(as.Rhs) == 1 {
			if id, ok := as.Lhs[0].(*ast.Ident); ok && id.Name == "filterOutTxn" {
				if fl, ok := as.Rhs[0].(*ast.FuncLit); ok {
					lit = fl
				}
			}
		}
		return true
	})
	if lit == nil {
		return "", "", fmt.Errorf("closure filterOutTxn not found in processSlotTransactions")
	}
	// both send sites must apply the predicate with the same polarity: `if filterOutTxn(...) {` (send when true)
	uses, plain := 0, 0
	ast.Inspect(fd.Body, func(n ast.Node) bool {
		if ifs, ok := n.(*ast.IfStmt); ok {
			c := c12Text(fset, ifs.Cond)
			if strings.Contains(c, "filterOutTxn(") {
				uses++
				if strings.HasPrefix(c, "filterOutTxn(") {
					plain++
				}
			}
		}
		return true
	})
	if uses != 2 || plain != 2 {
		return "", "", fmt.Errorf("filterOutTxn is expected to guard exactly two send sites as `if filterOutTxn(...)`: found %d uses, %d of that form", uses, plain)
	}
	t := &c19tr{fset: fset}
	prog, err := t.stmts(lit.Body.List)
	if err != nil {
		return "", "", err
	}
	// ---- txMentionsAccount: which account lists of the transaction are searched for the key
	mfd := funcDecl(f, "", "txMentionsAccount")
	if mfd == nil {
		return "", "", fmt.Errorf("txMentionsAccount not found")
	}
	srcs, err := t.mentionSources(mfd.Body.List, false)
	if err != nil {
		return "", "", err
	}
	var b strings.Builder
	b.WriteString(coqHeader("C19: the transaction predicate `filterOutTxn` of grpc-server.go:processSlotTransactions, translated statement by statement (see gen/c19.go)."))
	b.WriteString("Require Import YF.C19_Prog.\n")
	b.WriteString("Definition filter_prog_c19 : list stmt := [\n  " + strings.Join(prog, ";\n  ") + "\n].\n")
	b.WriteString(fmt.Sprintf("Definition filter_send_sites_c19 : nat := %d.\n", uses))
	b.WriteString("(* txMentionsAccount: the account lists searched, in order (each: `for _, key := range L { if key == pkey { return true } }`), then `return false` *)\n")
	b.WriteString("Definition mention_sources_c19 : list msource := [" + strings.Join(srcs, "; ") + "].\n")
	return "FilterProgC19.v", b.String(), nil
}
