module verif/gen

go 1.23
