package main

// C05 translator: the constants of the two bucketteer file formats and of the metadata encoder that the
// model C05_Model.v writes out by hand, re-read from the source on every check and written to
// coq/Generated/ConstsC05.v:
//   go_version_current / go_version_legacy   const Version in bucketteer/bucketteer.go, deprecated/bucketteer/bucketteer.go
//   go_magic_current / go_magic_legacy       var _Magic = [8]byte{...} of the two packages
//   go_meta_max_kvs / _key / _value          indexmeta.MaxNumKVs / MaxKeySize / MaxValueSize
// Properties/C05.v states (Example C05_constants_match_source) that the model's constants equal these, so a
// change of a constant in the repository breaks the build of the C05 theorems.

import (
	"fmt"
	"go/ast"
	"go/token"
	"strconv"
	"strings"
)

func init() { register("c05", genC05) }

func c05Magic(f *ast.File) ([]string, error) {
	for _, d := range f.Decls {
		gd, ok := d.(*ast.GenDecl)
		if !ok || gd.Tok != token.VAR {
			continue
		}
		for _, s := range gd.Specs {
			vs := s.(*ast.ValueSpec)
			for i, n := range vs.Names {
				if n.Name != "_Magic" || i >= len(vs.Values) {
					continue
				}
				cl, ok := vs.Values[i].(*ast.CompositeLit)
				if !ok {
					return nil, fmt.Errorf("_Magic is not a composite literal")
				}
				var out []string
				for _, e := range cl.Elts {
					bl, ok := e.(*ast.BasicLit)
					if !ok {
						return nil, fmt.Errorf("_Magic element is not a literal")
					}
					switch bl.Kind {
					case token.CHAR:
						r, _, _, err := strconv.UnquoteChar(strings.Trim(bl.Value, "'"), '\'')
						if err != nil || r > 255 {
							return nil, fmt.Errorf("_Magic element %s is not a byte", bl.Value)
						}
						out = append(out, strconv.Itoa(int(r)))
					case token.INT:
						v, err := strconv.ParseInt(bl.Value, 0, 64)
						if err != nil || v < 0 || v > 255 {
							return nil, fmt.Errorf("_Magic element %s is not a byte", bl.Value)
						}
						out = append(out, strconv.FormatInt(v, 10))
					default:
						return nil, fmt.Errorf("_Magic element %s is not a byte", bl.Value)
					}
				}
				return out, nil
			}
		}
	}
	return nil, fmt.Errorf("_Magic not found")
}

func genC05(repo string) (string, string, error) {
	var sb strings.Builder
	sb.WriteString(coqHeader("C05: constants of bucketteer (current and legacy format) and of indexmeta."))
	sb.WriteString("Local Open Scope N_scope.\n")
	for _, pk := range []struct{ tag, dir string }{{"current", "bucketteer"}, {"legacy", "deprecated/bucketteer"}} {
		_, f, err := parseFile(repo, pk.dir+"/bucketteer.go")
		if err != nil {
			return "", "", err
		}
		v, err := constInt(f, "Version")
		if err != nil {
			return "", "", fmt.Errorf("%s/bucketteer.go: %v", pk.dir, err)
		}
		m, err := c05Magic(f)
		if err != nil {
			return "", "", fmt.Errorf("%s/bucketteer.go: %v", pk.dir, err)
		}
		fmt.Fprintf(&sb, "Definition go_version_%s : N := %d.\n", pk.tag, v)
		fmt.Fprintf(&sb, "Definition go_magic_%s : list N := [%s].\n", pk.tag, strings.Join(m, "; "))
	}
	_, f, err := parseFile(repo, "indexmeta/indexmeta.go")
	if err != nil {
		return "", "", err
	}
	for _, c := range []struct{ coq, goName string }{{"go_meta_max_kvs", "MaxNumKVs"}, {"go_meta_max_key", "MaxKeySize"}, {"go_meta_max_value", "MaxValueSize"}} {
		v, err := constInt(f, c.goName)
		if err != nil {
			return "", "", fmt.Errorf("indexmeta/indexmeta.go: %v", err)
		}
		fmt.Fprintf(&sb, "Definition %s : N := %d.\n", c.coq, v)
	}
	return "ConstsC05.v", sb.String(), nil
}
