// factgen: small translators that re-read /repo's working tree on every check and regenerate
// coq/Generated/*.v (constants, lock programs, ...). Each generator lives in its own file and
// registers itself in init(). Only the Go standard library (go/ast, go/parser, go/token) is used.
package main

import (
	"flag"
	"fmt"
	"os"
	"path/filepath"
	"sort"
)

// A generator returns the Coq file name (e.g. "ConstsC06.v") and its full content.
type generator func(repo string) (name string, content string, err error)

var generators = map[string]generator{}

func register(id string, g generator) { generators[id] = g }

func main() {
	repo := flag.String("repo", "/repo", "repository working tree")
	out := flag.String("out", "", "output directory for generated .v files")
	flag.Parse()
	if *out == "" {
		fmt.Fprintln(os.Stderr, "usage: factgen -repo /repo -out DIR")
		os.Exit(2)
	}
	ids := make([]string, 0, len(generators))
	for id := range generators {
		ids = append(ids, id)
	}
	sort.Strings(ids)
	failed := false
	for _, id := range ids {
		name, content, err := generators[id](*repo)
		if err != nil {
			// A generator that cannot find what it translates must fail loudly: the theorems that depend on
			// the fact then do not build, which the check reports.
			fmt.Fprintf(os.Stderr, "factgen %s: %v\n", id, err)
			failed = true
			continue
		}
		if err := os.WriteFile(filepath.Join(*out, name), []byte(content), 0o644); err != nil {
			fmt.Fprintf(os.Stderr, "factgen %s: %v\n", id, err)
			failed = true
		}
		fmt.Printf("factgen %s -> %s\n", id, name)
	}
	if failed {
		os.Exit(1)
	}
}
