package main

// GoLite translator: turns selected functions of /repo into terms of the deep embedding coq/GoLite.v
// (fdecl / stmt / expr).  It is a syntax-directed printer over go/ast, using go/types only for the static integer
// type of every arithmetic expression (the width at which the Coq semantics wraps), for constant values and to tell
// what an identifier refers to.  Anything it does not recognise is an error: the generated file is then not
// written and the theorems that depend on it stop building.
//
// Conventions (the semantics is in GoLite.v):
//   - receiver first, then the parameters; parameters of function type are not values: a call of one becomes
//     SCallExt "<name>" (an oracle of the theorem);
//   - a slice / pointer-receiver parameter that the function writes through (p[i] = .., copy(p, ..), PutUintN(p, ..),
//     p.f = .., or passing it on to a translated function in such a position) is an OUT-parameter: its final value is
//     appended to every returned tuple and the call site assigns it back to the argument (which must be a variable or
//     a slice of a variable).  Two arguments of one call that alias each other are not detected (trusted base);
//   - calls nested in expressions are hoisted into temporaries in evaluation order; a call under && / || or in a
//     loop condition is rejected;
//   - a local that shadows another gets its own environment slot (name#k);
//   - WHAT is passed for a function-typed parameter at a call site is recorded in the generated file
//     (Definition binding_<caller>_<param> := (callee, param, "Recv.method(receiver)" | function | source text)), so that
//     a theorem interpreting the oracle as that function can name the fact and breaks when another function is passed;
//   - errors: errors.New / fmt.Errorf values are identified by their constructor, not their text; fmt.Errorf with a %w
//     verb is EWrap of the wrapped operand (a NEW error value: `e == ErrX` (EErrIs) is false for it, errors.Is(e, ErrX)
//     (EErrorsIs) sees through the wrapping);
//   - a slice of struct values is the list of its values: make([]T, 0) is "makev", append(s, v) is "appendv";
//   - x.f[i] = e and copy(x.f[a:b], src) on an integer-sequence field go through a temporary.

import (
	"fmt"
	"go/ast"
	"go/build"
	"go/constant"
	"go/importer"
	"go/parser"
	"go/printer"
	"go/token"
	"go/types"
	"os"
	"path/filepath"
	"sort"
	"strings"
)

type glFunc struct {
	recv, name string // Go receiver type name ("" for functions) and function name
	alias      string // name in the generated program (default: name, or Recv.name)
}

type glGroup struct {
	id      string            // generator id, e.g. "golitec04"
	out     string            // file name, e.g. "GoLiteC04.v"
	pkgDir  string            // directory relative to the repository root
	prefix  string            // prefix of the names in the generated program (for a second package in the same file)
	funcs   []glFunc          // functions to translate
	externs []string          // qualified names (pkg.Func) of calls that become SCallExt oracles
	hoist   bool              // give the locals declared inside a loop body their zero value before the loop (one environment shape for proofs; dead stores in Go terms)
	devirt  map[string]string // interface type name -> the one translated type whose methods its calls resolve to
	more    []glGroup         // further packages translated into the same file (their pkgDir/prefix/funcs/externs)
	ignore  []string          // functions whose calls (as statements) are dropped: logging
	recvArg bool              // an interface-method oracle receives the receiver value as its first argument
	consts  map[string]string // integer constants of third-party packages (not type-checked here): "pkg.Name" -> value
}

func registerGoLite(g glGroup) {
	register(g.id, func(repo string) (string, string, error) {
		content, err := glTranslateGroup(repo, g)
		return g.out, content, err
	})
}

// ---------------------------------------------------------------- package loading

type glStubImporter struct {
	std  types.Importer
	pkgs map[string]*types.Package
	repo string         // repository root: its own packages are type-checked from source (third-party ones are stubs)
	mod  string         // module path from go.mod
	fset *token.FileSet
}

func glModulePath(repo string) string {
	b, err := os.ReadFile(filepath.Join(repo, "go.mod"))
	if err != nil {
		return ""
	}
	for _, line := range strings.Split(string(b), "\n") {
		if strings.HasPrefix(line, "module ") {
			return strings.TrimSpace(strings.TrimPrefix(line, "module "))
		}
	}
	return ""
}

// importOwn: a package of the repository itself, type-checked from source with this importer (errors about members of
// stubbed third-party packages are expected and ignored)
func (im *glStubImporter) importOwn(path string) *types.Package {
	dir := filepath.Join(im.repo, strings.TrimPrefix(strings.TrimPrefix(path, im.mod), "/"))
	ents, err := os.ReadDir(dir)
	if err != nil {
		return nil
	}
	var files []*ast.File
	ctx := build.Default
	for _, e := range ents {
		n := e.Name()
		if e.IsDir() || !strings.HasSuffix(n, ".go") || strings.HasSuffix(n, "_test.go") {
			continue
		}
		if ok, _ := ctx.MatchFile(dir, n); !ok {
			continue
		}
		f, err := parser.ParseFile(im.fset, filepath.Join(dir, n), nil, 0)
		if err != nil {
			return nil
		}
		files = append(files, f)
	}
	if len(files) == 0 {
		return nil
	}
	conf := types.Config{Importer: im, Error: func(error) {}}
	pkg, _ := conf.Check(path, im.fset, files, nil)
	return pkg
}

func (im *glStubImporter) Import(path string) (*types.Package, error) {
	if p, ok := im.pkgs[path]; ok {
		return p, nil
	}
	if im.mod != "" && (path == im.mod || strings.HasPrefix(path, im.mod+"/")) {
		if p := im.importOwn(path); p != nil {
			im.pkgs[path] = p
			return p, nil
		}
	}
	if !strings.Contains(strings.Split(path, "/")[0], ".") { // standard library: type-check from source
		if p, err := im.std.Import(path); err == nil {
			im.pkgs[path] = p
			return p, nil
		}
	}
	name := path[strings.LastIndex(path, "/")+1:]
	if strings.HasPrefix(name, "v") && len(name) <= 3 && strings.Count(path, "/") > 0 { // .../xxhash/v2
		rest := path[:strings.LastIndex(path, "/")]
		name = rest[strings.LastIndex(rest, "/")+1:]
	}
	name = strings.TrimPrefix(name, "go-")
	name = strings.ReplaceAll(name, "-", "_")
	p := types.NewPackage(path, name)
	// a few signatures the translated functions rely on
	u64 := types.Typ[types.Uint64]
	bs := types.NewSlice(types.Typ[types.Byte])
	if strings.Contains(path, "cespare/xxhash") {
		sig := types.NewSignatureType(nil, nil, nil, types.NewTuple(types.NewVar(token.NoPos, p, "b", bs)), types.NewTuple(types.NewVar(token.NoPos, p, "", u64)), false)
		p.Scope().Insert(types.NewFunc(token.NoPos, p, "Sum64", sig))
	}
	p.MarkComplete()
	im.pkgs[path] = p
	return p, nil
}

type glPkg struct {
	fset  *token.FileSet
	files []*ast.File
	info  *types.Info
	pkg   *types.Package
}

var glPkgCache = map[string]*glPkg{}

func glLoad(repo, dir string) (*glPkg, error) {
	key := repo + "|" + dir
	if p, ok := glPkgCache[key]; ok {
		return p, nil
	}
	fset := token.NewFileSet()
	full := filepath.Join(repo, dir)
	ents, err := os.ReadDir(full)
	if err != nil {
		return nil, err
	}
	var files []*ast.File
	ctx := build.Default
	for _, e := range ents {
		n := e.Name()
		if e.IsDir() || !strings.HasSuffix(n, ".go") || strings.HasSuffix(n, "_test.go") {
			continue
		}
		if ok, _ := ctx.MatchFile(full, n); !ok {
			continue
		}
		f, err := parser.ParseFile(fset, filepath.Join(full, n), nil, parser.ParseComments)
		if err != nil {
			return nil, err
		}
		files = append(files, f)
	}
	if len(files) == 0 {
		return nil, fmt.Errorf("no Go files in %s", dir)
	}
	info := &types.Info{
		Types:      map[ast.Expr]types.TypeAndValue{},
		Defs:       map[*ast.Ident]types.Object{},
		Uses:       map[*ast.Ident]types.Object{},
		Selections: map[*ast.SelectorExpr]*types.Selection{},
	}
	conf := types.Config{
		Importer: &glStubImporter{std: importer.ForCompiler(fset, "source", nil), pkgs: map[string]*types.Package{}, repo: repo, mod: glModulePath(repo), fset: fset},
		Error:    func(error) {}, // third-party packages are stubs: errors about their members are expected
	}
	pkg, _ := conf.Check(dir, fset, files, info)
	p := &glPkg{fset: fset, files: files, info: info, pkg: pkg}
	glPkgCache[key] = p
	return p, nil
}

func (p *glPkg) findFunc(recv, name string) *ast.FuncDecl {
	for _, f := range p.files {
		if fd := funcDecl(f, recv, name); fd != nil && fd.Body != nil {
			return fd
		}
	}
	return nil
}

// ---------------------------------------------------------------- translation state

type glTr struct {
	p         *glPkg
	g         glGroup
	byObj     map[types.Object]*glFn // translated functions of the group by their types.Func
	fns       []*glFn
	externs   map[string]bool
	externOut map[string]int
	recvPath  map[*ast.CallExpr][]string
	externRecv map[string]bool
	bindings  []string // what is passed for a function-typed (oracle) parameter at each call site
}

type glFn struct {
	spec     glFunc
	decl     *ast.FuncDecl
	obj      types.Object
	params   []string        // value parameters in order (receiver first)
	paramObj []types.Object  // objects of params
	funcPars map[string]bool // parameters of function type (oracles)
	outs     []int           // indexes into params that are out-parameters
	results  []string        // named results ("" when unnamed)
	resTypes []types.Type
	declared map[string]types.Object // flat local environment: name -> object
	names    map[types.Object]string // environment name of every local object (a shadowing declaration gets name#k)
	usedName map[string]bool
	ntmp     int
}

// vname: the environment name of a local variable (by object, so that an inner declaration that shadows an outer one
// gets its own slot name#2, name#3, ...)
func (fn *glFn) vname(obj types.Object, fallback string) string {
	if obj == nil {
		return fallback
	}
	if fn.names == nil {
		fn.names = map[types.Object]string{}
		fn.usedName = map[string]bool{}
	}
	if n, ok := fn.names[obj]; ok {
		return n
	}
	n := obj.Name()
	for k := 2; fn.usedName[n]; k++ {
		n = fmt.Sprintf("%s#%d", obj.Name(), k)
	}
	fn.names[obj] = n
	fn.usedName[n] = true
	return n
}

func (f *glFn) isOut(i int) bool {
	for _, o := range f.outs {
		if o == i {
			return true
		}
	}
	return false
}

// idName: environment name of the variable an identifier refers to (definition or use)
func (t *glTr) idName(fn *glFn, id *ast.Ident) string {
	obj := t.p.info.Defs[id]
	if obj == nil {
		obj = t.p.info.Uses[id]
	}
	return fn.vname(obj, id.Name)
}

type glErr struct{ msg string }

func (e glErr) Error() string { return e.msg }

func (t *glTr) fail(n ast.Node, format string, a ...interface{}) {
	pos := t.p.fset.Position(n.Pos())
	panic(glErr{fmt.Sprintf("%s:%d: ", filepath.Base(pos.Filename), pos.Line) + fmt.Sprintf(format, a...)})
}

func glTranslateGroup(repo string, g glGroup) (content string, err error) {
	var b strings.Builder
	b.WriteString("(* GENERATED by /verif/gen/golite.go from /repo's working tree on every check. Do not edit.\n")
	dirs := []string{g.pkgDir}
	for _, m := range g.more {
		dirs = append(dirs, m.pkgDir)
	}
	fmt.Fprintf(&b, "   Packages %s: functions translated into the GoLite fragment (coq/GoLite.v). *)\n", strings.Join(dirs, ", "))
	b.WriteString("From Coq Require Import List ZArith String.\nRequire Import YF.GoLite.\nImport ListNotations.\nLocal Open Scope string_scope.\nLocal Open Scope Z_scope.\n\n")
	var names, lemmas []string
	parts := append([]glGroup{g}, g.more...)
	for _, part := range parts {
		defs, ns, ls, err := glTranslatePart(repo, part)
		if err != nil {
			return "", err
		}
		b.WriteString(defs)
		names = append(names, ns...)
		lemmas = append(lemmas, ls...)
	}
	fmt.Fprintf(&b, "Definition prog : program :=\n  [%s].\n\n", strings.Join(names, ";\n   "))
	b.WriteString(strings.Join(lemmas, ""))
	return b.String(), nil
}

func glTranslatePart(repo string, g glGroup) (defs string, names, lemmas []string, err error) {
	p, err := glLoad(repo, g.pkgDir)
	if err != nil {
		return "", nil, nil, err
	}
	t := &glTr{p: p, g: g, byObj: map[types.Object]*glFn{}, externs: map[string]bool{}}
	t.externOut = map[string]int{}
	t.externRecv = map[string]bool{}
	for _, e := range g.externs {
		if strings.HasSuffix(e, ":recv") {
			e = strings.TrimSuffix(e, ":recv")
			t.externRecv[e] = true
			t.externs[e] = true
			continue
		}
		if i := strings.Index(e, ":out"); i > 0 {
			k := int(e[i+4] - '0')
			e = e[:i]
			t.externOut[e] = k
		}
		t.externs[e] = true
	}
	defer func() {
		if r := recover(); r != nil {
			if ge, ok := r.(glErr); ok {
				err = fmt.Errorf("%s: %s", g.pkgDir, ge.msg)
				return
			}
			panic(r)
		}
	}()
	for _, spec := range g.funcs {
		fd := p.findFunc(spec.recv, spec.name)
		if fd == nil {
			return "", nil, nil, fmt.Errorf("%s: function %s.%s not found", g.pkgDir, spec.recv, spec.name)
		}
		if spec.alias == "" {
			spec.alias = spec.name
			if spec.recv != "" {
				spec.alias = spec.recv + "." + spec.name
			}
		}
		spec.alias = g.prefix + spec.alias
		fn := &glFn{spec: spec, decl: fd, obj: p.info.Defs[fd.Name], funcPars: map[string]bool{}, declared: map[string]types.Object{}}
		t.collectParams(fn)
		t.fns = append(t.fns, fn)
		if fn.obj != nil {
			t.byObj[fn.obj] = fn
		}
	}
	// out-parameters: fixpoint over the group
	for changed := true; changed; {
		changed = false
		for _, fn := range t.fns {
			for i := range fn.params {
				if !fn.isOut(i) && t.writesThrough(fn, fn.paramObj[i]) {
					fn.outs = append(fn.outs, i)
					sort.Ints(fn.outs)
					changed = true
				}
			}
		}
	}
	var b strings.Builder
	for i := 0; i < len(t.fns); i++ { // function literals found on the way are appended to t.fns
		fn := t.fns[i]
		body := t.funcBody(fn)
		cname := "fn_" + glIdent(fn.spec.alias)
		pos := p.fset.Position(fn.decl.Pos())
		fmt.Fprintf(&b, "(* %s/%s:%s%s — out-parameters: %v *)\n", g.pkgDir, filepath.Base(pos.Filename), map[bool]string{true: "(" + fn.spec.recv + ").", false: ""}[fn.spec.recv != ""], fn.spec.name, t.outNames(fn))
		fmt.Fprintf(&b, "Definition %s : fdecl :=\n  {| f_params := [%s];\n     f_body :=\n%s |}.\n\n", cname, glStrList(fn.params), glIndent(body, 7))
		names = append(names, fmt.Sprintf("(%s, %s)", glStr(fn.spec.alias), cname))
		lemmas = append(lemmas, fmt.Sprintf("Lemma prog_%s : plookup %s prog = Some fn_%s.\nProof. reflexivity. Qed.\n", glIdent(fn.spec.alias), glStr(fn.spec.alias), glIdent(fn.spec.alias)))
	}
	lemmas = append(lemmas, t.bindings...)
	return b.String(), names, lemmas, nil
}

func (t *glTr) outNames(fn *glFn) []string {
	var r []string
	for _, i := range fn.outs {
		r = append(r, fn.params[i])
	}
	return r
}

func glIdent(s string) string {
	return strings.NewReplacer(".", "_", "*", "", "[", "_", "]", "_", "/", "_", "-", "_", "$", "_").Replace(s)
}
func glStr(s string) string { return "\"" + strings.ReplaceAll(s, "\"", "\"\"") + "\"" }
func glStrList(l []string) string {
	q := make([]string, len(l))
	for i, s := range l {
		q[i] = glStr(s)
	}
	return strings.Join(q, "; ")
}
func glIndent(s string, n int) string {
	pad := strings.Repeat(" ", n)
	lines := strings.Split(s, "\n")
	for i := range lines {
		lines[i] = pad + lines[i]
	}
	return strings.Join(lines, "\n")
}
func glZ(v string) string {
	if strings.HasPrefix(v, "-") {
		return "(" + v + ")"
	}
	return v
}

func (t *glTr) collectParams(fn *glFn) {
	add := func(id *ast.Ident, ty types.Type) {
		if id == nil || id.Name == "_" {
			t.fail(fn.decl, "unnamed parameter in %s", fn.spec.name)
		}
		obj := t.p.info.Defs[id]
		if _, isFunc := ty.Underlying().(*types.Signature); isFunc {
			fn.funcPars[id.Name] = true
			fn.declared[id.Name] = obj
			return
		}
		fn.params = append(fn.params, fn.vname(obj, id.Name))
		fn.paramObj = append(fn.paramObj, obj)
		fn.declared[id.Name] = obj
	}
	if fn.decl.Recv != nil {
		for _, f := range fn.decl.Recv.List {
			for _, id := range f.Names {
				add(id, t.p.info.TypeOf(f.Type))
			}
			if len(f.Names) == 0 {
				t.fail(fn.decl, "unnamed receiver")
			}
		}
	}
	for _, f := range fn.decl.Type.Params.List {
		ty := t.p.info.TypeOf(f.Type)
		for _, id := range f.Names {
			add(id, ty)
		}
		if len(f.Names) == 0 {
			t.fail(fn.decl, "unnamed parameter")
		}
	}
	if fn.decl.Type.Results != nil {
		for _, f := range fn.decl.Type.Results.List {
			ty := t.p.info.TypeOf(f.Type)
			if len(f.Names) == 0 {
				fn.results = append(fn.results, "")
				fn.resTypes = append(fn.resTypes, ty)
			}
			for _, id := range f.Names {
				fn.results = append(fn.results, fn.vname(t.p.info.Defs[id], id.Name))
				fn.resTypes = append(fn.resTypes, ty)
				fn.declared[id.Name] = t.p.info.Defs[id]
			}
		}
	}
}

func (t *glTr) pkgVarHasNoInit(v *types.Var) bool {
	for _, f := range t.p.files {
		for _, d := range f.Decls {
			gd, ok := d.(*ast.GenDecl)
			if !ok || gd.Tok != token.VAR {
				continue
			}
			for _, sp := range gd.Specs {
				vs := sp.(*ast.ValueSpec)
				for _, n := range vs.Names {
					if t.p.info.Defs[n] == v {
						return len(vs.Values) == 0
					}
				}
			}
		}
	}
	return false
}

// rootObj: the variable an lvalue-ish expression is rooted at (x, x[i], x[a:b], x.f, *x)
func (t *glTr) rootObj(e ast.Expr) types.Object {
	switch x := e.(type) {
	case *ast.Ident:
		return t.p.info.Uses[x]
	case *ast.ParenExpr:
		return t.rootObj(x.X)
	case *ast.IndexExpr:
		return t.rootObj(x.X)
	case *ast.SliceExpr:
		return t.rootObj(x.X)
	case *ast.StarExpr:
		return t.rootObj(x.X)
	case *ast.SelectorExpr:
		if _, ok := t.p.info.Selections[x]; ok {
			return t.rootObj(x.X)
		}
	}
	return nil
}

func isRefType(ty types.Type) bool {
	if ty == nil {
		return false
	}
	switch ty.Underlying().(type) {
	case *types.Slice, *types.Pointer:
		return true
	}
	return false
}

func (t *glTr) isDevirtIface(ty types.Type) bool {
	if n, ok := ty.(*types.Named); ok {
		_, ok := t.g.devirt[n.Obj().Name()]
		return ok
	}
	return false
}

// does the function write through the parameter obj (a slice or pointer)?
func (t *glTr) writesThrough(fn *glFn, obj types.Object) bool {
	if obj == nil || !(isRefType(obj.Type()) || t.isDevirtIface(obj.Type())) {
		return false
	}
	found := false
	ast.Inspect(fn.decl.Body, func(n ast.Node) bool {
		switch s := n.(type) {
		case *ast.AssignStmt:
			for _, l := range s.Lhs {
				if _, plain := l.(*ast.Ident); !plain && t.rootObj(l) == obj {
					found = true
				}
			}
		case *ast.IncDecStmt:
			if _, plain := s.X.(*ast.Ident); !plain && t.rootObj(s.X) == obj {
				found = true
			}
		case *ast.CallExpr:
			name := t.callName(s)
			switch {
			case name == "copy" || strings.HasPrefix(name, "binary.LittleEndian.Put") || strings.HasPrefix(name, "binary.BigEndian.Put"):
				if len(s.Args) > 0 && t.rootObj(s.Args[0]) == obj {
					found = true
				}
			default:
				if callee, args := t.calleeOf(s); callee != nil {
					for _, oi := range callee.outs {
						if oi < len(args) && t.rootObj(args[oi]) == obj {
							found = true
						}
					}
				} else {
					// an external (or an interface method treated as one) declared to write through argument k
					en := name
					if f, ok := s.Fun.(*ast.SelectorExpr); ok {
						if sel, ok := t.p.info.Selections[f]; ok && sel.Kind() == types.MethodVal {
							if n := t.foreignMethodName(f); n != "" {
								en = n
							}
						}
					}
					if k, ok := t.externOut[en]; ok && k < len(s.Args) && t.rootObj(s.Args[k]) == obj {
						found = true
					}
				}
			}
		}
		return !found
	})
	return found
}

// callName: "len", "copy", "binary.LittleEndian.Uint64", "xxhash.Sum64", ... ("" if not a plain name)
func (t *glTr) callName(c *ast.CallExpr) string {
	switch f := c.Fun.(type) {
	case *ast.Ident:
		return f.Name
	case *ast.SelectorExpr:
		var parts []string
		var e ast.Expr = f
		for {
			if s, ok := e.(*ast.SelectorExpr); ok {
				parts = append([]string{s.Sel.Name}, parts...)
				e = s.X
				continue
			}
			break
		}
		if id, ok := e.(*ast.Ident); ok {
			if _, isPkg := t.p.info.Uses[id].(*types.PkgName); isPkg {
				return id.Name + "." + strings.Join(parts, ".")
			}
		}
	}
	return ""
}

// calleeOf: the translated function a call refers to and its full argument list (receiver first)
func (t *glTr) calleeOf(c *ast.CallExpr) (*glFn, []ast.Expr) {
	fun := c.Fun
	if ix, ok := fun.(*ast.IndexExpr); ok { // explicit instantiation f[T](..)
		fun = ix.X
	}
	switch f := fun.(type) {
	case *ast.Ident:
		if fn, ok := t.byObj[t.p.info.Uses[f]]; ok {
			return fn, c.Args
		}
	case *ast.SelectorExpr:
		if sel, ok := t.p.info.Selections[f]; ok && sel.Kind() == types.MethodVal {
			if fn, ok := t.byObj[sel.Obj()]; ok {
				if len(sel.Index()) > 1 {
					// a method promoted through embedded fields: the receiver is x.E1.E2..., not x
					t.notePromoted(c, f, sel)
				}
				return fn, append([]ast.Expr{f.X}, c.Args...)
			}
			// a method of an interface the group declares to be implemented by one translated type
			if named, ok := sel.Recv().(*types.Named); ok {
				if conc, ok := t.g.devirt[named.Obj().Name()]; ok {
					for _, fn := range t.fns {
						if fn.spec.recv == conc && fn.spec.name == f.Sel.Name {
							return fn, append([]ast.Expr{f.X}, c.Args...)
						}
					}
				}
			}
		}
	}
	return nil, nil
}

// closureFn: a function literal passed for a function-typed parameter becomes a function of the generated program,
// "<caller>$<param>", whose leading parameters are the variables it captures (in order of first use) followed by its
// own; the binding text is "<caller>$<param>(captured, ...)". The literal may not write to what it captures.
func (t *glTr) closureFn(c *glCtx, pname string, lit *ast.FuncLit) string {
	alias := c.fn.spec.alias + "$" + pname
	var caps []types.Object
	seen := map[types.Object]bool{}
	ast.Inspect(lit.Body, func(n ast.Node) bool {
		if as, ok := n.(*ast.AssignStmt); ok && as.Tok != token.DEFINE {
			for _, l := range as.Lhs {
				if o := t.rootObj(l); o != nil && !(o.Pos() >= lit.Pos() && o.Pos() < lit.End()) {
					t.fail(lit, "function literal assigns to the captured variable %s", o.Name())
				}
			}
		}
		id, ok := n.(*ast.Ident)
		if !ok {
			return true
		}
		obj, ok := t.p.info.Uses[id].(*types.Var)
		if !ok || obj.IsField() || obj.Parent() == nil || obj.Parent() == t.p.pkg.Scope() || obj.Parent() == types.Universe {
			return true
		}
		if obj.Pos() >= lit.Pos() && obj.Pos() < lit.End() {
			return true
		}
		if !seen[obj] {
			seen[obj] = true
			caps = append(caps, obj)
		}
		return true
	})
	fd := &ast.FuncDecl{Name: ast.NewIdent(alias), Type: lit.Type, Body: lit.Body}
	fn := &glFn{spec: glFunc{name: alias, alias: alias}, decl: fd, funcPars: map[string]bool{}, declared: map[string]types.Object{}}
	var names []string
	for _, o := range caps {
		fn.params = append(fn.params, fn.vname(o, o.Name()))
		fn.paramObj = append(fn.paramObj, o)
		fn.declared[o.Name()] = o
		names = append(names, o.Name())
	}
	t.collectParams(fn)
	t.fns = append(t.fns, fn)
	return alias + "(" + strings.Join(names, ", ") + ")"
}

// oracleArgText: a canonical text for the argument passed for a function-typed parameter: "Recv.method(receiver
// expression)" for a method value of a translated function, the function's alias for a translated function, else the
// source text of the expression
func (t *glTr) oracleArgText(a ast.Expr) string {
	switch x := a.(type) {
	case *ast.Ident:
		if fn, ok := t.byObj[t.p.info.Uses[x]]; ok {
			return fn.spec.alias
		}
	case *ast.SelectorExpr:
		if sel, ok := t.p.info.Selections[x]; ok && sel.Kind() == types.MethodVal {
			if fn, ok := t.byObj[sel.Obj()]; ok {
				return fn.spec.alias + "(" + types.ExprString(x.X) + ")"
			}
		}
	}
	return types.ExprString(a)
}

// notePromoted records the embedded-field path between the written receiver and the method's real receiver
func (t *glTr) notePromoted(c *ast.CallExpr, f *ast.SelectorExpr, sel *types.Selection) {
	if t.recvPath == nil {
		t.recvPath = map[*ast.CallExpr][]string{}
	}
	if _, done := t.recvPath[c]; done {
		return
	}
	ty := t.p.info.TypeOf(f.X)
	var path []string
	idx := sel.Index()
	for _, k := range idx[:len(idx)-1] {
		if p, ok := ty.Underlying().(*types.Pointer); ok {
			ty = p.Elem()
		}
		st, ok := ty.Underlying().(*types.Struct)
		if !ok {
			t.fail(c, "promoted method through %s", ty)
		}
		fld := st.Field(k)
		path = append(path, fld.Name())
		ty = fld.Type()
	}
	t.recvPath[c] = path
}

// ---------------------------------------------------------------- types

func (t *glTr) ity(n ast.Node, ty types.Type) string {
	if ty == nil {
		t.fail(n, "expression has no type")
	}
	if tp, ok := ty.(*types.TypeParam); ok {
		_ = tp
		return "I64" // a type parameter instantiated at integers: values are only moved, never computed with
	}
	b, ok := ty.Underlying().(*types.Basic)
	if !ok {
		t.fail(n, "not an integer type: %s", ty)
	}
	switch b.Kind() {
	case types.Uint8:
		return "U8"
	case types.Uint16:
		return "U16"
	case types.Uint32:
		return "U32"
	case types.Uint64, types.Uint, types.Uintptr:
		return "U64"
	case types.Int8:
		return "I8"
	case types.Int16:
		return "I16"
	case types.Int32:
		return "I32"
	case types.Int64, types.Int, types.UntypedInt, types.UntypedRune:
		return "I64"
	}
	t.fail(n, "not an integer type: %s", ty)
	return ""
}

func isIntType(ty types.Type) bool {
	if ty == nil {
		return false
	}
	if _, ok := ty.(*types.TypeParam); ok {
		return true
	}
	b, ok := ty.Underlying().(*types.Basic)
	return ok && b.Info()&types.IsInteger != 0
}
func isBoolType(ty types.Type) bool {
	b, ok := ty.Underlying().(*types.Basic)
	return ok && b.Info()&types.IsBoolean != 0
}
func isIntSeq(ty types.Type) bool {
	switch s := ty.Underlying().(type) {
	case *types.Slice:
		return isIntType(s.Elem())
	case *types.Array:
		return isIntType(s.Elem())
	case *types.Pointer:
		if a, ok := s.Elem().Underlying().(*types.Array); ok {
			return isIntType(a.Elem())
		}
	}
	return false
}
func isErrorType(ty types.Type) bool {
	return ty != nil && ty.String() == "error"
}

func (t *glTr) zero(n ast.Node, ty types.Type) string {
	switch u := ty.Underlying().(type) {
	case *types.Basic:
		if u.Info()&types.IsInteger != 0 {
			return "EInt 0"
		}
		if u.Info()&types.IsBoolean != 0 {
			return "EBool false"
		}
	case *types.Slice:
		if isIntType(u.Elem()) {
			return "ENilSlice"
		}
		if _, ok := u.Elem().Underlying().(*types.Struct); ok {
			return "EBuiltin \"makev\" []" // the nil slice of struct values: the empty list
		}
	case *types.Array:
		if isIntType(u.Elem()) {
			return fmt.Sprintf("EBuiltin \"make\" [EInt %d]", u.Len())
		}
	case *types.Interface:
		if isErrorType(ty) {
			return "ENil"
		}
	case *types.Pointer:
		return "ENil"
	case *types.Struct:
		var fs []string
		for i := 0; i < u.NumFields(); i++ {
			f := u.Field(i)
			if f.Embedded() {
				t.fail(n, "zero value of a struct with an embedded field")
			}
			fs = append(fs, fmt.Sprintf("(%s, %s)", glStr(f.Name()), t.zero(n, f.Type())))
		}
		return "EStructLit [" + strings.Join(fs, "; ") + "]"
	}
	if _, ok := ty.(*types.TypeParam); ok {
		return "EInt 0"
	}
	t.fail(n, "no zero value for type %s", ty)
	return ""
}

// ---------------------------------------------------------------- expressions

type glCtx struct {
	fn     *glFn
	pre    []string // hoisted call statements (in evaluation order)
	noCall bool     // calls may not be hoisted here (loop condition, right operand of && / ||)
}

func (t *glTr) constOf(e ast.Expr) (string, bool) {
	tv, ok := t.p.info.Types[e]
	if !ok || tv.Value == nil {
		return "", false
	}
	switch tv.Value.Kind() {
	case constant.Int:
		return "EInt " + glZ(tv.Value.ExactString()), true
	case constant.Bool:
		if constant.BoolVal(tv.Value) {
			return "EBool true", true
		}
		return "EBool false", true
	}
	return "", false
}

var glBinop = map[token.Token]string{token.ADD: "OAdd", token.SUB: "OSub", token.MUL: "OMul", token.QUO: "ODiv", token.REM: "ORem",
	token.AND: "OAnd", token.OR: "OOr", token.XOR: "OXor", token.AND_NOT: "OAndNot"}
var glCmp = map[token.Token]string{token.EQL: "CEq", token.NEQ: "CNe", token.LSS: "CLt", token.LEQ: "CLe", token.GTR: "CGt", token.GEQ: "CGe"}

func (t *glTr) expr(c *glCtx, e ast.Expr) string {
	if s, ok := t.constOf(e); ok {
		return s
	}
	switch x := e.(type) {
	case *ast.ParenExpr:
		return t.expr(c, x.X)
	case *ast.Ident:
		switch x.Name {
		case "nil":
			ty := t.p.info.TypeOf(x)
			if ty != nil {
				if _, isSlice := ty.Underlying().(*types.Slice); isSlice {
					return "ENilSlice"
				}
			}
			return "ENil"
		case "true":
			return "EBool true"
		case "false":
			return "EBool false"
		}
		obj := t.p.info.Uses[x]
		if v, ok := obj.(*types.Var); ok {
			if v.Parent() == t.p.pkg.Scope() { // package-level variable
				if isErrorType(v.Type()) {
					return "EErr " + glStr(v.Name())
				}
				if _, isArr := v.Type().Underlying().(*types.Array); isArr && isIntSeq(v.Type()) && t.pkgVarHasNoInit(v) {
					// `var X [N]byte` never initialised: its zero value (assignments to it elsewhere are not tracked)
					return t.zero(e, v.Type())
				}
				t.fail(e, "package-level variable %s", v.Name())
			}
			return "EVar " + glStr(c.fn.vname(v, x.Name))
		}
		t.fail(e, "identifier %s", x.Name)
	case *ast.BasicLit:
		t.fail(e, "literal %s", x.Value)
	case *ast.UnaryExpr:
		switch x.Op {
		case token.NOT:
			return "ENot (" + t.expr(c, x.X) + ")"
		case token.SUB:
			return fmt.Sprintf("ENeg %s (%s)", t.ity(e, t.p.info.TypeOf(e)), t.expr(c, x.X))
		case token.XOR:
			return fmt.Sprintf("ECompl %s (%s)", t.ity(e, t.p.info.TypeOf(e)), t.expr(c, x.X))
		case token.ADD:
			return t.expr(c, x.X)
		case token.AND:
			// &CompositeLit / &x : pointers to structs are the struct value here
			return t.expr(c, x.X)
		}
		t.fail(e, "unary operator %s", x.Op)
	case *ast.StarExpr:
		return t.expr(c, x.X)
	case *ast.BinaryExpr:
		switch x.Op {
		case token.LAND, token.LOR:
			a := t.expr(c, x.X)
			save := c.noCall
			c.noCall = true
			b := t.expr(c, x.Y)
			c.noCall = save
			if x.Op == token.LAND {
				return fmt.Sprintf("EAndAlso (%s) (%s)", a, b)
			}
			return fmt.Sprintf("EOrElse (%s) (%s)", a, b)
		case token.SHL, token.SHR:
			ty := t.ity(e, t.p.info.TypeOf(e))
			a, b := t.expr(c, x.X), t.expr(c, x.Y)
			if x.Op == token.SHL {
				return fmt.Sprintf("EShl %s (%s) (%s)", ty, a, b)
			}
			return fmt.Sprintf("EShr %s (%s) (%s)", ty, a, b)
		case token.EQL, token.NEQ:
			// comparisons with nil / error variables
			if id, ok := x.Y.(*ast.Ident); ok && id.Name == "nil" {
				r := "EIsNil (" + t.expr(c, x.X) + ")"
				if x.Op == token.NEQ {
					r = "ENot (" + r + ")"
				}
				return r
			}
			if sy, ok := x.Y.(*ast.SelectorExpr); ok {
				if pid, ok := sy.X.(*ast.Ident); ok {
					if _, isPkg := t.p.info.Uses[pid].(*types.PkgName); isPkg {
						if v, ok := t.p.info.Uses[sy.Sel].(*types.Var); ok && isErrorType(v.Type()) {
							r := fmt.Sprintf("EErrIs (%s) %s", t.expr(c, x.X), glStr(pid.Name+"."+sy.Sel.Name))
							if x.Op == token.NEQ {
								r = "ENot (" + r + ")"
							}
							return r
						}
					}
				}
			}
			if id, ok := x.Y.(*ast.Ident); ok {
				if v, ok := t.p.info.Uses[id].(*types.Var); ok && v.Parent() == t.p.pkg.Scope() && isErrorType(v.Type()) {
					r := fmt.Sprintf("EErrIs (%s) %s", t.expr(c, x.X), glStr(v.Name()))
					if x.Op == token.NEQ {
						r = "ENot (" + r + ")"
					}
					return r
				}
			}
			fallthrough
		case token.LSS, token.LEQ, token.GTR, token.GEQ:
			tx := t.p.info.TypeOf(x.X)
			if !(isIntType(tx) || (isBoolType(tx) && (x.Op == token.EQL || x.Op == token.NEQ))) {
				t.fail(e, "comparison of %s", tx)
			}
			return fmt.Sprintf("ECmp %s (%s) (%s)", glCmp[x.Op], t.expr(c, x.X), t.expr(c, x.Y))
		}
		if op, ok := glBinop[x.Op]; ok {
			ty := t.p.info.TypeOf(e)
			if ty == nil {
				// an operand mentions a value of a third-party type that is not type-checked here (e.g. len(c.Bytes())):
				// the other operand, or the result type of len, gives the type
				if ty = t.p.info.TypeOf(x.Y); ty == nil {
					ty = t.p.info.TypeOf(x.X)
				}
				if ty == nil && (glIsLenCall(x.X) || glIsLenCall(x.Y)) {
					ty = types.Typ[types.Int]
				}
			}
			return fmt.Sprintf("EBin %s %s (%s) (%s)", op, t.ity(e, ty), t.expr(c, x.X), t.expr(c, x.Y))
		}
		t.fail(e, "binary operator %s", x.Op)
	case *ast.IndexExpr:
		if !isIntSeq(t.p.info.TypeOf(x.X)) {
			t.fail(e, "indexing a %s", t.p.info.TypeOf(x.X))
		}
		return fmt.Sprintf("EIndex (%s) (%s)", t.expr(c, x.X), t.expr(c, x.Index))
	case *ast.SliceExpr:
		if x.Slice3 || !isIntSeq(t.p.info.TypeOf(x.X)) {
			t.fail(e, "slice expression on %s", t.p.info.TypeOf(x.X))
		}
		return fmt.Sprintf("ESlice (%s) %s %s", t.expr(c, x.X), t.optExpr(c, x.Low), t.optExpr(c, x.High))
	case *ast.SelectorExpr:
		if id, ok := x.X.(*ast.Ident); ok {
			if _, isPkg := t.p.info.Uses[id].(*types.PkgName); isPkg {
				if v, ok := t.g.consts[id.Name+"."+x.Sel.Name]; ok {
					return "EInt " + glZ(v)
				}
				if v, ok := t.p.info.Uses[x.Sel].(*types.Var); ok && isErrorType(v.Type()) {
					return "EErr " + glStr(id.Name+"."+x.Sel.Name) // io.EOF and the like
				}
				t.fail(e, "qualified identifier %s.%s", id.Name, x.Sel.Name)
			}
		}
		if sel, ok := t.p.info.Selections[x]; ok && sel.Kind() == types.FieldVal {
			if len(sel.Index()) != 1 {
				// promoted field through embedded structs: b.HashLen where b embeds BucketHeader
				return t.promoted(c, x, sel)
			}
			return fmt.Sprintf("EField (%s) %s", t.expr(c, x.X), glStr(x.Sel.Name))
		}
		t.fail(e, "selector %s", x.Sel.Name)
	case *ast.CompositeLit:
		ty := t.p.info.TypeOf(x)
		st, ok := ty.Underlying().(*types.Struct)
		if !ok {
			if arr, ok := ty.Underlying().(*types.Array); ok && isIntType(arr.Elem()) && len(x.Elts) == 0 {
				return fmt.Sprintf("EBuiltin \"make\" [EInt %d]", arr.Len())
			}
			if sl, ok := ty.Underlying().(*types.Slice); ok && len(x.Elts) == 0 {
				if _, ok := sl.Elem().Underlying().(*types.Struct); ok {
					return "EBuiltin \"makev\" []"
				}
			}
			// [n]T{e0, ..., e(n-1)} / []T{e0, ...} of integers, all elements given positionally
			if isIntSeq(ty) {
				full := true
				if arr, ok := ty.Underlying().(*types.Array); ok && int64(len(x.Elts)) != arr.Len() {
					full = false
				}
				cur := "EBuiltin \"make\" [EInt 0]"
				for _, el := range x.Elts {
					if _, kv := el.(*ast.KeyValueExpr); kv {
						full = false
						break
					}
					cur = fmt.Sprintf("EBuiltin \"append1\" [%s; %s]", cur, t.expr(c, el))
				}
				if full {
					return cur
				}
			}
			t.fail(e, "composite literal of %s", ty)
		}
		given := map[string]string{}
		for i, el := range x.Elts {
			if kv, ok := el.(*ast.KeyValueExpr); ok {
				given[kv.Key.(*ast.Ident).Name] = t.expr(c, kv.Value)
			} else {
				given[st.Field(i).Name()] = t.expr(c, el)
			}
		}
		var fs []string
		for i := 0; i < st.NumFields(); i++ {
			f := st.Field(i)
			v, ok := given[f.Name()]
			if !ok {
				v = t.zero(e, f.Type())
			}
			fs = append(fs, fmt.Sprintf("(%s, %s)", glStr(f.Name()), v))
		}
		return "EStructLit [" + strings.Join(fs, "; ") + "]"
	case *ast.CallExpr:
		return t.callExpr(c, x)
	}
	t.fail(e, "unsupported expression %T", e)
	return ""
}

func (t *glTr) promoted(c *glCtx, x *ast.SelectorExpr, sel *types.Selection) string {
	// walk the embedded path: x.X . f1 . f2 ... . Sel
	ty := t.p.info.TypeOf(x.X)
	cur := t.expr(c, x.X)
	for _, idx := range sel.Index() {
		if p, ok := ty.Underlying().(*types.Pointer); ok {
			ty = p.Elem()
		}
		st, ok := ty.Underlying().(*types.Struct)
		if !ok {
			t.fail(x, "promoted field through %s", ty)
		}
		f := st.Field(idx)
		cur = fmt.Sprintf("EField (%s) %s", cur, glStr(f.Name()))
		ty = f.Type()
	}
	return cur
}

func (t *glTr) optExpr(c *glCtx, e ast.Expr) string {
	if e == nil {
		return "None"
	}
	return "(Some (" + t.expr(c, e) + "))"
}

func (t *glTr) tmp(c *glCtx) string {
	c.fn.ntmp++
	return fmt.Sprintf("tmp%d", c.fn.ntmp)
}

// callExpr: a call in expression position
func (t *glTr) callExpr(c *glCtx, x *ast.CallExpr) string {
	// conversion?
	if tv, ok := t.p.info.Types[x.Fun]; ok && tv.IsType() {
		if len(x.Args) != 1 {
			t.fail(x, "conversion with %d arguments", len(x.Args))
		}
		to := t.p.info.TypeOf(x.Fun)
		from := t.p.info.TypeOf(x.Args[0])
		if sy, ok := x.Args[0].(*ast.SelectorExpr); ok && isIntType(to) {
			if pid, ok := sy.X.(*ast.Ident); ok {
				if _, declared := t.g.consts[pid.Name+"."+sy.Sel.Name]; declared {
					return fmt.Sprintf("EConv %s (%s)", t.ity(x, to), t.expr(c, x.Args[0]))
				}
			}
		}
		if isIntType(to) && isIntType(from) {
			return fmt.Sprintf("EConv %s (%s)", t.ity(x, to), t.expr(c, x.Args[0]))
		}
		if isIntSeq(to) && isIntSeq(from) {
			return t.expr(c, x.Args[0])
		}
		t.fail(x, "conversion from %s to %s", from, to)
	}
	name := t.callName(x)
	arg := func(i int) string { return t.expr(c, x.Args[i]) }
	switch name {
	case "len":
		// the length of a slice of non-integers (e.g. of interface values) is the length of the list that stands for
		// it in the model (its elements are opaque)
		if aty := t.p.info.TypeOf(x.Args[0]); aty == nil {
			// the result of an oracle of a third-party package that is not type-checked here: a byte sequence by
			// declaration of the oracle
			if _, isCall := x.Args[0].(*ast.CallExpr); !isCall {
				t.fail(x, "len of an expression without type")
			}
		} else {
			if sl, ok := aty.Underlying().(*types.Slice); ok {
				if _, ok := sl.Elem().Underlying().(*types.Struct); ok {
					return "ELenV (" + arg(0) + ")"
				}
			}
			switch aty.Underlying().(type) {
			case *types.Slice, *types.Array:
			default:
				if !isIntSeq(aty) {
					t.fail(x, "len of %s", aty)
				}
			}
		}
		return "ELen (" + arg(0) + ")"
	case "min", "max":
		if len(x.Args) == 2 && isIntType(t.p.info.TypeOf(x.Args[0])) {
			return fmt.Sprintf("EBuiltin %s [%s; %s]", glStr(name), arg(0), arg(1))
		}
	case "make":
		// make([]T, n) and make([]T, n, c): capacity is not modelled (the semantics identifies it with the length)
		if (len(x.Args) == 2 || len(x.Args) == 3) && isIntSeq(t.p.info.TypeOf(x.Args[0])) {
			return fmt.Sprintf("EBuiltin \"make\" [%s]", arg(1))
		}
		// make([]T, 0[, c]) for a slice of non-integers (structs): the empty list of values
		if len(x.Args) >= 2 {
			if _, ok := t.p.info.TypeOf(x.Args[0]).Underlying().(*types.Slice); ok {
				if tv, ok := t.p.info.Types[x.Args[1]]; ok && tv.Value != nil && tv.Value.String() == "0" {
					return "EBuiltin \"makev\" []"
				}
			}
		}
	case "append":
		if isIntSeq(t.p.info.TypeOf(x.Args[0])) {
			if x.Ellipsis.IsValid() && len(x.Args) == 2 {
				return fmt.Sprintf("EBuiltin \"append\" [%s; %s]", arg(0), arg(1))
			}
			cur := arg(0)
			for i := 1; i < len(x.Args); i++ {
				cur = fmt.Sprintf("EBuiltin \"append1\" [%s; %s]", cur, arg(i))
			}
			return cur
		}
		// append(s, v...) on a slice of non-integers (struct values): the list of values grows at its end
		if _, ok := t.p.info.TypeOf(x.Args[0]).Underlying().(*types.Slice); ok && !x.Ellipsis.IsValid() {
			cur := arg(0)
			for i := 1; i < len(x.Args); i++ {
				cur = fmt.Sprintf("EBuiltin \"appendv\" [%s; %s]", cur, arg(i))
			}
			return cur
		}
	case "bits.LeadingZeros64":
		return fmt.Sprintf("EBuiltin \"bits.LeadingZeros64\" [%s]", arg(0))
	case "binary.LittleEndian.Uint16", "binary.LittleEndian.Uint32", "binary.LittleEndian.Uint64":
		return fmt.Sprintf("EBuiltin %s [%s]", glStr("le."+name[strings.LastIndex(name, ".")+1:]), arg(0))
	case "binary.BigEndian.Uint16", "binary.BigEndian.Uint32", "binary.BigEndian.Uint64":
		return fmt.Sprintf("EBuiltin %s [%s]", glStr("be."+name[strings.LastIndex(name, ".")+1:]), arg(0))
	case "errors.Is":
		// errors.Is(e, pkg.ErrX) / errors.Is(e, ErrX): the comparison with the innermost wrapped error (see fmt.Errorf
		// below); e == ErrX compares the error value itself
		if len(x.Args) == 2 {
			if sy, ok := x.Args[1].(*ast.SelectorExpr); ok {
				if pid, ok := sy.X.(*ast.Ident); ok {
					if _, isPkg := t.p.info.Uses[pid].(*types.PkgName); isPkg {
						if v, ok := t.p.info.Uses[sy.Sel].(*types.Var); ok && isErrorType(v.Type()) {
							return fmt.Sprintf("EErrorsIs (%s) %s", arg(0), glStr(pid.Name+"."+sy.Sel.Name))
						}
					}
				}
			}
			if id, ok := x.Args[1].(*ast.Ident); ok {
				if v, ok := t.p.info.Uses[id].(*types.Var); ok && v.Parent() == t.p.pkg.Scope() && isErrorType(v.Type()) {
					return fmt.Sprintf("EErrorsIs (%s) %s", arg(0), glStr(v.Name()))
				}
			}
		}
	case "errors.New", "fmt.Errorf":
		msg := "?"
		if len(x.Args) > 0 {
			if lit, ok := x.Args[0].(*ast.BasicLit); ok {
				msg = strings.Trim(lit.Value, "\"`")
			}
		}
		// A freshly made error is identified by the function that made it, not by its text: rewording a message is
		// not a change of behaviour (callers test such errors against nil only). The operands of the message are not
		// evaluated by the model.
		// fmt.Errorf("...%w...", ..., err) WRAPS err: a new error (== err is false) that errors.Is sees through
		// (only the text is dropped).
		if name == "fmt.Errorf" {
			if k := glWrapVerbArg(msg); k >= 0 && k+1 < len(x.Args) {
				return "EWrap (" + arg(k+1) + ")"
			}
		}
		return "EErr " + glStr(name)
	}
	// a translated function, an oracle or an external: hoist
	if c.noCall {
		t.fail(x, "call of %s where it cannot be hoisted (loop condition or right operand of && / ||)", name)
	}
	tv := t.tmp(c)
	stmt, nres := t.callStmt(c, x, []string{"LVar " + glStr(tv)})
	if nres != 1 {
		t.fail(x, "call with %d results used as a value", nres)
	}
	c.pre = append(c.pre, stmt)
	return "EVar " + glStr(tv)
}

// lvalOf: an lvalue for an argument in out position or an assignment target
func (t *glTr) lvalOf(c *glCtx, e ast.Expr) string {
	switch x := e.(type) {
	case *ast.ParenExpr:
		return t.lvalOf(c, x.X)
	case *ast.Ident:
		if x.Name == "_" {
			return "LIgnore"
		}
		return "LVar " + glStr(t.idName(c.fn, x))
	case *ast.StarExpr:
		return t.lvalOf(c, x.X)
	case *ast.UnaryExpr:
		if x.Op == token.AND {
			return t.lvalOf(c, x.X)
		}
	case *ast.IndexExpr:
		if id, ok := x.X.(*ast.Ident); ok && isIntSeq(t.p.info.TypeOf(x.X)) {
			return fmt.Sprintf("LIndex %s (%s)", glStr(t.idName(c.fn, id)), t.expr(c, x.Index))
		}
	case *ast.SliceExpr:
		if id, ok := x.X.(*ast.Ident); ok && !x.Slice3 && isIntSeq(t.p.info.TypeOf(x.X)) {
			return fmt.Sprintf("LSlice %s %s %s", glStr(t.idName(c.fn, id)), t.optExpr(c, x.Low), t.optExpr(c, x.High))
		}
	case *ast.SelectorExpr:
		if sel, ok := t.p.info.Selections[x]; ok && sel.Kind() == types.FieldVal && len(sel.Index()) == 1 {
			if id, ok := x.X.(*ast.Ident); ok {
				return fmt.Sprintf("LField %s %s", glStr(t.idName(c.fn, id)), glStr(x.Sel.Name))
			}
		}
	}
	t.fail(e, "unsupported assignment target / out-argument")
	return ""
}

// callStmt: `lhs... = f(args)` for a translated function, an oracle parameter or a declared external.
// Returns the statement and the number of (proper) results of the callee.
func (t *glTr) callStmt(c *glCtx, x *ast.CallExpr, lhs []string) (string, int) {
	if callee, args := t.calleeOf(x); callee != nil {
		var as []string
		pi := 0
		var outL []string
		// args line up with callee.params except function-typed parameters, which are dropped
		full := t.allParams(callee)
		if len(full) != len(args) {
			t.fail(x, "call of %s with %d arguments for %d parameters", callee.spec.alias, len(args), len(full))
		}
		for i, a := range args {
			if full[i].isFunc {
				// the oracle parameter is dropped from the call; WHAT is passed for it is recorded as a definition of
				// the generated file, so that theorems which interpret the oracle as that function can name the fact
				txt := ""
				if lit, ok := a.(*ast.FuncLit); ok {
					txt = t.closureFn(c, full[i].name, lit)
				} else {
					txt = t.oracleArgText(a)
				}
				t.bindings = append(t.bindings, fmt.Sprintf("Definition binding_%s_%s : string * string * string :=\n  (%s, %s, %s).\n",
					glIdent(c.fn.spec.alias), glIdent(full[i].name), glStr(callee.spec.alias), glStr(full[i].name), glStr(txt)))
				continue
			}
			ae := t.expr(c, a)
			if path := t.recvPath[x]; i == 0 && len(path) > 0 {
				for _, fname := range path {
					ae = fmt.Sprintf("EField (%s) %s", ae, glStr(fname))
				}
				if callee.isOut(pi) {
					t.fail(x, "promoted method %s writes through its receiver", callee.spec.alias)
				}
			}
			as = append(as, ae)
			if callee.isOut(pi) {
				outL = append(outL, t.lvalOf(c, a))
			}
			pi++
		}
		nres := len(callee.results)
		l := lhs
		if l == nil {
			for i := 0; i < nres; i++ {
				l = append(l, "LIgnore")
			}
		}
		if len(l) != nres {
			t.fail(x, "call of %s: %d targets for %d results", callee.spec.alias, len(l), nres)
		}
		l = append(append([]string{}, l...), outL...)
		return fmt.Sprintf("SCall [%s] %s [%s]", strings.Join(l, "; "), glStr(callee.spec.alias), strings.Join(as, "; ")), nres
	}
	name := t.callName(x)
	var as []string
	if id, ok := x.Fun.(*ast.Ident); ok && c.fn.funcPars[id.Name] {
		name = id.Name
	} else if iname, recvArg, ok := t.ifaceMethod(c, x); ok && t.externs[iname] {
		// a method of an interface value the model does not represent: an oracle named <interface>.<method>; when
		// the receiver is an element of a slice, WHICH element is passed as the first argument
		name = iname
		if recvArg != "" {
			as = append(as, recvArg)
		}
	} else if own := t.ownMethodName(x); own != "" && t.externs[own] {
		// a method of a type of this package declared external (it touches the file system, say): an oracle named
		// <Type>.<method>; the receiver is not passed
		name = own
	} else if sel, ok := x.Fun.(*ast.SelectorExpr); ok && name == "" && t.externs["*."+sel.Sel.Name] {
		// a method of a value whose type belongs to a third-party package that is not type-checked here (an opaque
		// value produced by another oracle): the oracle "*.<Method>" receives the value first
		name = "*." + sel.Sel.Name
		as = append(as, t.expr(c, sel.X))
	} else if !t.externs[name] {
		t.fail(x, "call of %q: not a translated function, a function parameter or a declared external", name)
	}
	for _, a := range x.Args {
		as = append(as, t.expr(c, a))
	}
	nres := 1
	if tup, ok := t.p.info.TypeOf(x).(*types.Tuple); ok {
		nres = tup.Len()
	} else if tv, ok := t.p.info.Types[x]; ok && tv.IsVoid() {
		nres = 0
	}
	l := lhs
	if l == nil {
		for i := 0; i < nres; i++ {
			l = append(l, "LIgnore")
		}
	}
	nl := len(l)
	// an external method that writes through its receiver (declared "<name>:recv"): the receiver value is passed first
	// and its new value is returned after the results
	if t.externRecv[name] {
		if sel, ok := x.Fun.(*ast.SelectorExpr); ok {
			as = append([]string{t.expr(c, sel.X)}, as...)
			l = append(append([]string{}, l...), t.lvalOf(c, sel.X))
		}
	}
	// an external that writes through one of its arguments returns the new contents after its results
	if k, ok := t.externOut[name]; ok {
		if k >= len(x.Args) {
			t.fail(x, "external %s: out-argument %d missing", name, k)
		}
		l = append(append([]string{}, l...), t.lvalOf(c, x.Args[k]))
	}
	return fmt.Sprintf("SCallExt [%s] %s [%s]", strings.Join(l, "; "), glStr(name), strings.Join(as, "; ")), nl
}

// ownMethodName: "<Type>.<method>" when x calls a method of a named type of this package ("" otherwise)
func (t *glTr) ownMethodName(x *ast.CallExpr) string {
	f, ok := x.Fun.(*ast.SelectorExpr)
	if !ok {
		return ""
	}
	sel, ok := t.p.info.Selections[f]
	if !ok || sel.Kind() != types.MethodVal {
		return ""
	}
	rt := sel.Recv()
	if pt, ok := rt.(*types.Pointer); ok {
		rt = pt.Elem()
	}
	if nt, ok := rt.(*types.Named); ok && nt.Obj().Pkg() == t.p.pkg {
		return nt.Obj().Name() + "." + f.Sel.Name
	}
	return ""
}

// ifaceMethod: x is a call  recv.M(...)  where recv has an interface type: returns "<iface>.<M>" and, when recv is
// xs[i], the translated index i.
func (t *glTr) ifaceMethod(c *glCtx, x *ast.CallExpr) (string, string, bool) {
	f, ok := x.Fun.(*ast.SelectorExpr)
	if !ok {
		return "", "", false
	}
	sel, ok := t.p.info.Selections[f]
	if !ok || sel.Kind() != types.MethodVal {
		return "", "", false
	}
	rt := t.p.info.TypeOf(f.X)
	if rt == nil {
		return "", "", false
	}
	base := rt
	if pt, ok := base.(*types.Pointer); ok {
		base = pt.Elem()
	}
	_, isIface := rt.Underlying().(*types.Interface)
	foreign := false
	if nt, ok := base.(*types.Named); ok && nt.Obj().Pkg() != nil && nt.Obj().Pkg() != t.p.pkg {
		foreign = true // a type of another package (its methods are not translated): e.g. *io.SectionReader
	}
	if !isIface && !foreign {
		return "", "", false
	}
	name := base.String() + "." + f.Sel.Name
	if ix, ok := f.X.(*ast.IndexExpr); ok {
		return name, t.expr(c, ix.Index), true
	}
	if t.g.recvArg {
		// opt-in: the oracle is told WHICH value the method is called on (several readers in one function)
		return name, t.expr(c, f.X), true
	}
	return name, "", true
}

// foreignMethodName: "<type>.<method>" when f selects a method of an interface value or of a named type of another
// package ("" otherwise)
func (t *glTr) foreignMethodName(f *ast.SelectorExpr) string {
	rt := t.p.info.TypeOf(f.X)
	if rt == nil {
		return ""
	}
	base := rt
	if pt, ok := base.(*types.Pointer); ok {
		base = pt.Elem()
	}
	if _, isIface := rt.Underlying().(*types.Interface); isIface {
		return base.String() + "." + f.Sel.Name
	}
	if nt, ok := base.(*types.Named); ok && nt.Obj().Pkg() != nil && nt.Obj().Pkg() != t.p.pkg {
		return base.String() + "." + f.Sel.Name
	}
	return ""
}

type glParam struct {
	name   string
	isFunc bool
}

func (t *glTr) allParams(fn *glFn) []glParam {
	var r []glParam
	if fn.decl.Recv != nil {
		for _, f := range fn.decl.Recv.List {
			for _, id := range f.Names {
				r = append(r, glParam{id.Name, false})
			}
		}
	}
	for _, f := range fn.decl.Type.Params.List {
		for _, id := range f.Names {
			r = append(r, glParam{id.Name, fn.funcPars[id.Name]})
		}
	}
	return r
}

// ---------------------------------------------------------------- statements

func glSeq(ss []string) string {
	var keep []string
	for _, s := range ss {
		if s != "SSkip" && s != "" {
			keep = append(keep, s)
		}
	}
	if len(keep) == 0 {
		return "SSkip"
	}
	out := keep[len(keep)-1]
	for i := len(keep) - 2; i >= 0; i-- {
		out = "SSeq (" + keep[i] + ")\n(" + out + ")"
	}
	return out
}

func (t *glTr) declare(fn *glFn, id *ast.Ident) {
	if id.Name == "_" {
		return
	}
	obj := t.p.info.Defs[id]
	if obj == nil {
		return // `:=` re-using an existing variable
	}
	fn.vname(obj, id.Name) // a shadowing declaration gets its own environment slot
	fn.declared[id.Name] = obj
}

func (t *glTr) block(fn *glFn, list []ast.Stmt) string {
	var out []string
	for _, s := range list {
		out = append(out, t.stmt(fn, s))
	}
	return glSeq(out)
}

func (t *glTr) withPre(c *glCtx, s string) string {
	return glSeq(append(append([]string{}, c.pre...), s))
}

func (t *glTr) retStmt(fn *glFn, c *glCtx, vals []string) string {
	for _, oi := range fn.outs {
		vals = append(vals, "EVar "+glStr(fn.params[oi]))
	}
	return "SReturn [" + strings.Join(vals, "; ") + "]"
}

func (t *glTr) stmt(fn *glFn, s ast.Stmt) string {
	c := &glCtx{fn: fn}
	switch x := s.(type) {
	case *ast.EmptyStmt:
		return "SSkip"
	case *ast.BlockStmt:
		return t.block(fn, x.List)
	case *ast.ExprStmt:
		call, ok := x.X.(*ast.CallExpr)
		if !ok {
			t.fail(s, "expression statement")
		}
		name := t.callName(call)
		for _, ig := range t.g.ignore {
			if name == ig {
				return "SSkip" // logging: its operands are not evaluated by the model
			}
		}
		switch {
		case name == "panic":
			return "SPanic"
		case name == "sort.Slice":
			// sort.Slice(x, func(i, j int) bool { return <cmp> }) on an integer slice variable: an oracle named after
			// the comparison text (a changed comparator changes the oracle's name, hence the theorem's hypothesis)
			id, ok := call.Args[0].(*ast.Ident)
			fl, ok2 := call.Args[1].(*ast.FuncLit)
			if !ok || !ok2 || !isIntSeq(t.p.info.TypeOf(call.Args[0])) || len(fl.Body.List) != 1 {
				t.fail(s, "sort.Slice shape")
			}
			ret, ok := fl.Body.List[0].(*ast.ReturnStmt)
			if !ok || len(ret.Results) != 1 {
				t.fail(s, "sort.Slice comparator shape")
			}
			var sb strings.Builder
			printer.Fprint(&sb, t.p.fset, ret.Results[0])
			return fmt.Sprintf("SCallExt [LVar %s] %s [EVar %s]", glStr(t.idName(fn, id)), glStr("sort.Slice: "+sb.String()), glStr(t.idName(fn, id)))
		case name == "copy":
			// copy(x.f[a:b], src): the field's slice through a temporary (value semantics: read the field, copy into
			// it, store it back)
			if sl, ok := call.Args[0].(*ast.SliceExpr); ok && !sl.Slice3 {
				if fsel, ok := sl.X.(*ast.SelectorExpr); ok {
					if sel, ok := t.p.info.Selections[fsel]; ok && sel.Kind() == types.FieldVal && len(sel.Index()) == 1 {
						if id, ok := fsel.X.(*ast.Ident); ok && isIntSeq(t.p.info.TypeOf(sl.X)) {
							tn := t.tmp(c)
							src := t.expr(c, call.Args[1])
							lo, hi := t.optExpr(c, sl.Low), t.optExpr(c, sl.High)
							return t.withPre(c, glSeq([]string{
								fmt.Sprintf("SAssign (LVar %s) (EField (EVar %s) %s)", glStr(tn), glStr(t.idName(fn, id)), glStr(fsel.Sel.Name)),
								fmt.Sprintf("SCopy (LSlice %s %s %s) (%s)", glStr(tn), lo, hi, src),
								fmt.Sprintf("SAssign (LField %s %s) (EVar %s)", glStr(t.idName(fn, id)), glStr(fsel.Sel.Name), glStr(tn)),
							}))
						}
					}
				}
			}
			return t.withPre(c, fmt.Sprintf("SCopy (%s) (%s)", t.lvalOf(c, call.Args[0]), t.expr(c, call.Args[1])))
		case strings.HasPrefix(name, "binary.LittleEndian.PutUint"), strings.HasPrefix(name, "binary.BigEndian.PutUint"):
			bits := name[strings.LastIndex(name, "PutUint")+7:]
			n := map[string]int{"16": 2, "32": 4, "64": 8}[bits]
			if n == 0 {
				t.fail(s, "%s", name)
			}
			k := "SPutLE"
			if strings.Contains(name, "BigEndian") {
				k = "SPutBE"
			}
			return t.withPre(c, fmt.Sprintf("%s %d (%s) (%s)", k, n, t.lvalOf(c, call.Args[0]), t.expr(c, call.Args[1])))
		}
		st, _ := t.callStmt(c, call, nil)
		return t.withPre(c, st)
	case *ast.IncDecStmt:
		op := "OAdd"
		if x.Tok == token.DEC {
			op = "OSub"
		}
		ty := t.ity(s, t.p.info.TypeOf(x.X))
		return t.withPre(c, fmt.Sprintf("SAssign (%s) (EBin %s %s (%s) (EInt 1))", t.lvalOf(c, x.X), op, ty, t.expr(c, x.X)))
	case *ast.DeclStmt:
		gd, ok := x.Decl.(*ast.GenDecl)
		if !ok || gd.Tok != token.VAR {
			if ok && gd.Tok == token.CONST {
				return "SSkip" // constants are folded by the type checker
			}
			t.fail(s, "declaration")
		}
		var out []string
		for _, sp := range gd.Specs {
			vs := sp.(*ast.ValueSpec)
			for i, id := range vs.Names {
				t.declare(fn, id)
				if id.Name == "_" {
					continue
				}
				if len(vs.Values) == len(vs.Names) {
					out = append(out, fmt.Sprintf("SAssign (LVar %s) (%s)", glStr(t.idName(fn, id)), t.expr(c, vs.Values[i])))
				} else if len(vs.Values) == 0 {
					out = append(out, fmt.Sprintf("SAssign (LVar %s) (%s)", glStr(t.idName(fn, id)), t.zero(s, t.p.info.TypeOf(id))))
				} else {
					t.fail(s, "var declaration with a tuple initialiser")
				}
			}
		}
		return t.withPre(c, glSeq(out))
	case *ast.AssignStmt:
		if x.Tok == token.DEFINE {
			for _, l := range x.Lhs {
				if id, ok := l.(*ast.Ident); ok {
					t.declare(fn, id)
				}
			}
		}
		if x.Tok != token.ASSIGN && x.Tok != token.DEFINE { // op=
			opTok := map[token.Token]token.Token{token.ADD_ASSIGN: token.ADD, token.SUB_ASSIGN: token.SUB, token.MUL_ASSIGN: token.MUL,
				token.QUO_ASSIGN: token.QUO, token.REM_ASSIGN: token.REM, token.AND_ASSIGN: token.AND, token.OR_ASSIGN: token.OR,
				token.XOR_ASSIGN: token.XOR, token.AND_NOT_ASSIGN: token.AND_NOT, token.SHL_ASSIGN: token.SHL, token.SHR_ASSIGN: token.SHR}[x.Tok]
			if opTok == 0 || len(x.Lhs) != 1 {
				t.fail(s, "assignment operator %s", x.Tok)
			}
			ty := t.ity(s, t.p.info.TypeOf(x.Lhs[0]))
			a, b := t.expr(c, x.Lhs[0]), t.expr(c, x.Rhs[0])
			var rhs string
			switch opTok {
			case token.SHL:
				rhs = fmt.Sprintf("EShl %s (%s) (%s)", ty, a, b)
			case token.SHR:
				rhs = fmt.Sprintf("EShr %s (%s) (%s)", ty, a, b)
			default:
				rhs = fmt.Sprintf("EBin %s %s (%s) (%s)", glBinop[opTok], ty, a, b)
			}
			return t.withPre(c, fmt.Sprintf("SAssign (%s) (%s)", t.lvalOf(c, x.Lhs[0]), rhs))
		}
		if len(x.Lhs) == len(x.Rhs) {
			if len(x.Lhs) == 1 {
				if call, ok := x.Rhs[0].(*ast.CallExpr); ok && t.isHoistedCall(c, call) {
					st, n := t.callStmt(c, call, []string{t.lvalOf(c, x.Lhs[0])})
					if n != 1 {
						t.fail(s, "call with %d results assigned to one target", n)
					}
					return t.withPre(c, st)
				}
				// x.f[i] = e on an int-sequence field: through a temporary (tmp := x.f; tmp[i] = e; x.f = tmp)
				if ix, ok := x.Lhs[0].(*ast.IndexExpr); ok && x.Tok == token.ASSIGN {
					if fsel, ok := ix.X.(*ast.SelectorExpr); ok && isIntSeq(t.p.info.TypeOf(ix.X)) {
						if sel, ok := t.p.info.Selections[fsel]; ok && sel.Kind() == types.FieldVal && len(sel.Index()) == 1 {
							if id, ok := fsel.X.(*ast.Ident); ok {
								rhs := t.expr(c, x.Rhs[0])
								idx := t.expr(c, ix.Index)
								tn := t.tmp(c)
								return t.withPre(c, glSeq([]string{
									fmt.Sprintf("SAssign (LVar %s) (EField (EVar %s) %s)", glStr(tn), glStr(t.idName(fn, id)), glStr(fsel.Sel.Name)),
									fmt.Sprintf("SAssign (LIndex %s (%s)) (%s)", glStr(tn), idx, rhs),
									fmt.Sprintf("SAssign (LField %s %s) (EVar %s)", glStr(t.idName(fn, id)), glStr(fsel.Sel.Name), glStr(tn)),
								}))
							}
						}
					}
				}
				return t.withPre(c, fmt.Sprintf("SAssign (%s) (%s)", t.lvalOf(c, x.Lhs[0]), t.expr(c, x.Rhs[0])))
			}
			// parallel assignment a, b = e1, e2: evaluate all right-hand sides first
			var es, ls []string
			for i := range x.Lhs {
				es = append(es, t.expr(c, x.Rhs[i]))
				ls = append(ls, t.lvalOf(c, x.Lhs[i]))
			}
			tv := t.tmp(c)
			pack := fmt.Sprintf("SCallExt [LVar %s] \"tuple\" [%s]", glStr(tv), strings.Join(es, "; "))
			_ = pack
			// expressed without an oracle: temporaries
			var out []string
			var tmps []string
			for _, e := range es {
				tn := t.tmp(c)
				tmps = append(tmps, tn)
				out = append(out, fmt.Sprintf("SAssign (LVar %s) (%s)", glStr(tn), e))
			}
			for i, l := range ls {
				out = append(out, fmt.Sprintf("SAssign (%s) (EVar %s)", l, glStr(tmps[i])))
			}
			return t.withPre(c, glSeq(out))
		}
		if len(x.Rhs) == 1 {
			call, ok := x.Rhs[0].(*ast.CallExpr)
			if !ok {
				t.fail(s, "tuple assignment from a non-call")
			}
			var ls []string
			for _, l := range x.Lhs {
				ls = append(ls, t.lvalOf(c, l))
			}
			st, n := t.callStmt(c, call, ls)
			if n != len(ls) {
				t.fail(s, "call with %d results assigned to %d targets", n, len(ls))
			}
			return t.withPre(c, st)
		}
		t.fail(s, "assignment shape")
	case *ast.ReturnStmt:
		var vals []string
		if len(x.Results) == 0 {
			for _, r := range fn.results {
				if r == "" {
					t.fail(s, "bare return with unnamed results")
				}
				vals = append(vals, "EVar "+glStr(r))
			}
		} else if len(x.Results) == 1 && len(fn.results) > 1 {
			call, ok := x.Results[0].(*ast.CallExpr)
			if !ok {
				t.fail(s, "return of a tuple from a non-call")
			}
			var ls []string
			for range fn.results {
				tn := t.tmp(c)
				ls = append(ls, "LVar "+glStr(tn))
				vals = append(vals, "EVar "+glStr(tn))
			}
			st, n := t.callStmt(c, call, ls)
			if n != len(fn.results) {
				t.fail(s, "return of a call with %d results for %d", n, len(fn.results))
			}
			c.pre = append(c.pre, st)
		} else {
			for i, r := range x.Results {
				if id, ok := r.(*ast.Ident); ok && id.Name == "nil" && i < len(fn.resTypes) {
					if _, isSlice := fn.resTypes[i].Underlying().(*types.Slice); isSlice {
						vals = append(vals, "ENilSlice")
						continue
					}
				}
				vals = append(vals, t.expr(c, r))
			}
		}
		return t.withPre(c, t.retStmt(fn, c, vals))
	case *ast.IfStmt:
		var pre []string
		if x.Init != nil {
			pre = append(pre, t.stmt(fn, x.Init))
		}
		// `if A || B { body }` (no else) whose B calls something: B is evaluated only when A does not hold, so it becomes
		// if A { body } else { <calls of B>; if B { body } }   (the body is duplicated)
		if be, ok := x.Cond.(*ast.BinaryExpr); ok && be.Op == token.LOR && x.Else == nil && glHasCall(be.Y) {
			condA := t.expr(c, be.X)
			preA := append(pre, c.pre...)
			thenS := t.block(fn, x.Body.List)
			c2 := &glCtx{fn: fn}
			condB := t.expr(c2, be.Y)
			inner := glSeq(append(append([]string{}, c2.pre...), fmt.Sprintf("SIf (%s)\n(%s)\n(SSkip)", condB, thenS)))
			return glSeq(append(preA, fmt.Sprintf("SIf (%s)\n(%s)\n(%s)", condA, thenS, inner)))
		}
		// `if A && B { body }` (no else) whose B calls something: B is evaluated only when A holds, so it becomes
		// if A { <calls of B>; if B { body } }
		if be, ok := x.Cond.(*ast.BinaryExpr); ok && be.Op == token.LAND && x.Else == nil && glHasCall(be.Y) {
			condA := t.expr(c, be.X)
			preA := append(pre, c.pre...)
			c2 := &glCtx{fn: fn}
			condB := t.expr(c2, be.Y)
			thenS := t.block(fn, x.Body.List)
			inner := glSeq(append(append([]string{}, c2.pre...), fmt.Sprintf("SIf (%s)\n(%s)\n(SSkip)", condB, thenS)))
			return glSeq(append(preA, fmt.Sprintf("SIf (%s)\n(%s)\n(SSkip)", condA, inner)))
		}
		cond := t.expr(c, x.Cond)
		thenS := t.block(fn, x.Body.List)
		elseS := "SSkip"
		if x.Else != nil {
			elseS = t.stmt(fn, x.Else)
		}
		pre = append(pre, c.pre...)
		return glSeq(append(pre, fmt.Sprintf("SIf (%s)\n(%s)\n(%s)", cond, thenS, elseS)))
	case *ast.ForStmt:
		var pre []string
		if x.Init != nil {
			pre = append(pre, t.stmt(fn, x.Init))
		}
		cond := "EBool true"
		if x.Cond != nil {
			cc := &glCtx{fn: fn, noCall: true}
			cond = t.expr(cc, x.Cond)
		}
		post := "SSkip"
		if x.Post != nil {
			post = t.stmt(fn, x.Post)
		}
		pre = append(pre, t.loopLocals(fn, x.Body)...)
		body := t.block(fn, x.Body.List)
		return glSeq(append(pre, fmt.Sprintf("SFor (%s)\n(%s)\n(%s)", cond, post, body)))
	case *ast.RangeStmt:
		// for i, v := range xs  over an integer slice / array: xs is evaluated once (as in Go); the body may assign
		// neither xs (when it is a variable) nor the key variable
		valueList := false
		if !isIntSeq(t.p.info.TypeOf(x.X)) {
			if sl, ok := t.p.info.TypeOf(x.X).Underlying().(*types.Slice); ok {
				if _, ok := sl.Elem().Underlying().(*types.Struct); ok {
					valueList = true // a slice of struct values: the list of its values
				}
			}
			if !valueList {
				t.fail(s, "range over %s", t.p.info.TypeOf(x.X))
			}
		}
		if x.Tok != token.DEFINE {
			t.fail(s, "range with assignment to existing variables")
		}
		var pre []string
		seqName := ""
		if id, ok := x.X.(*ast.Ident); ok {
			seqName = t.idName(fn, id)
		} else {
			seqName = t.tmp(c)
			pre = append(pre, c.pre...)
			c.pre = nil
			e := t.expr(c, x.X)
			pre = append(pre, c.pre...)
			c.pre = nil
			pre = append(pre, fmt.Sprintf("SAssign (LVar %s) (%s)", glStr(seqName), e))
		}
		keyName := ""
		if k, ok := x.Key.(*ast.Ident); ok && k.Name != "_" {
			t.declare(fn, k)
			keyName = t.idName(fn, k)
		}
		assigned := false
		ast.Inspect(x.Body, func(n ast.Node) bool {
			check := func(l ast.Expr) {
				if li, ok := l.(*ast.Ident); ok {
					nm := t.idName(fn, li)
					if nm == seqName || (keyName != "" && nm == keyName) {
						assigned = true
					}
				}
			}
			switch as := n.(type) {
			case *ast.AssignStmt:
				for _, l := range as.Lhs {
					check(l)
				}
			case *ast.IncDecStmt:
				check(as.X)
			}
			return true
		})
		if assigned {
			t.fail(s, "range whose body assigns the ranged variable or the key")
		}
		iname := keyName
		if iname == "" {
			iname = t.tmp(c)
		}
		var bodyPre []string
		if x.Value != nil {
			if v, ok := x.Value.(*ast.Ident); ok && v.Name != "_" {
				t.declare(fn, v)
				ix := "EIndex"
				if valueList {
					ix = "EIndexV"
				}
				bodyPre = append(bodyPre, fmt.Sprintf("SAssign (LVar %s) (%s (EVar %s) (EVar %s))", glStr(t.idName(fn, v)), ix, glStr(seqName), glStr(iname)))
			}
		}
		if t.g.hoist {
			if v, ok := x.Value.(*ast.Ident); ok && v.Name != "_" {
				pre = append(pre, fmt.Sprintf("SAssign (LVar %s) (%s)", glStr(t.idName(fn, v)), t.zero(v, t.p.info.Defs[v].Type())))
			}
		}
		pre = append(pre, t.loopLocals(fn, x.Body)...)
		body := glSeq(append(bodyPre, t.block(fn, x.Body.List)))
		init := fmt.Sprintf("SAssign (LVar %s) (EInt 0)", glStr(iname))
		lenOp := "ELen"
		if valueList {
			lenOp = "ELenV"
		}
		cond := fmt.Sprintf("ECmp CLt (EVar %s) (%s (EVar %s))", glStr(iname), lenOp, glStr(seqName))
		post := fmt.Sprintf("SAssign (LVar %s) (EBin OAdd I64 (EVar %s) (EInt 1))", glStr(iname), glStr(iname))
		return glSeq(append(pre, init, fmt.Sprintf("SFor (%s)\n(%s)\n(%s)", cond, post, body)))
	case *ast.BranchStmt:
		if x.Label != nil {
			t.fail(s, "labelled branch")
		}
		switch x.Tok {
		case token.BREAK:
			return "SBreak"
		case token.CONTINUE:
			return "SContinue"
		}
		t.fail(s, "branch %s", x.Tok)
	case *ast.SwitchStmt:
		// switch [tag] { case a, b: ...; default: ... } without fallthrough -> if chain
		var pre []string
		if x.Init != nil {
			pre = append(pre, t.stmt(fn, x.Init))
		}
		tag := ""
		if x.Tag != nil {
			tn := t.tmp(c)
			pre = append(pre, fmt.Sprintf("SAssign (LVar %s) (%s)", glStr(tn), t.expr(c, x.Tag)))
			tag = "EVar " + glStr(tn)
		}
		pre = append(pre, c.pre...)
		chain := "SSkip"
		var dflt *ast.CaseClause
		clauses := x.Body.List
		for _, cl := range clauses {
			if cc := cl.(*ast.CaseClause); cc.List == nil {
				dflt = cc
			}
		}
		if dflt != nil {
			chain = t.switchBody(fn, dflt.Body)
		}
		for i := len(clauses) - 1; i >= 0; i-- {
			cc := clauses[i].(*ast.CaseClause)
			if cc.List == nil {
				continue
			}
			var conds []string
			for _, e := range cc.List {
				c2 := &glCtx{fn: fn, noCall: true}
				if tag != "" {
					conds = append(conds, fmt.Sprintf("ECmp CEq (%s) (%s)", tag, t.expr(c2, e)))
				} else {
					conds = append(conds, t.expr(c2, e))
				}
			}
			cond := conds[len(conds)-1]
			for j := len(conds) - 2; j >= 0; j-- {
				cond = fmt.Sprintf("EOrElse (%s) (%s)", conds[j], cond)
			}
			chain = fmt.Sprintf("SIf (%s)\n(%s)\n(%s)", cond, t.switchBody(fn, cc.Body), chain)
		}
		// `break` inside a switch leaves the switch, not an enclosing loop: reject it rather than mistranslate
		ast.Inspect(x.Body, func(n ast.Node) bool {
			switch b := n.(type) {
			case *ast.ForStmt, *ast.RangeStmt:
				return false
			case *ast.BranchStmt:
				if b.Tok == token.BREAK || b.Tok == token.FALLTHROUGH {
					t.fail(b, "%s inside switch", b.Tok)
				}
			}
			return true
		})
		return glSeq(append(pre, chain))
	}
	t.fail(s, "unsupported statement %T", s)
	return ""
}

// loopLocals: zero-value assignments for the variables declared inside a loop body (option hoist), in source order
func (t *glTr) loopLocals(fn *glFn, body *ast.BlockStmt) []string {
	if !t.g.hoist {
		return nil
	}
	var out []string
	seen := map[types.Object]bool{}
	add := func(id *ast.Ident) {
		obj := t.p.info.Defs[id]
		if obj == nil || id.Name == "_" || seen[obj] {
			return
		}
		seen[obj] = true
		out = append(out, fmt.Sprintf("SAssign (LVar %s) (%s)", glStr(fn.vname(obj, id.Name)), t.zero(id, obj.Type())))
	}
	ast.Inspect(body, func(n ast.Node) bool {
		switch x := n.(type) {
		case *ast.AssignStmt:
			if x.Tok == token.DEFINE {
				for _, l := range x.Lhs {
					if id, ok := l.(*ast.Ident); ok {
						add(id)
					}
				}
			}
		case *ast.ValueSpec:
			for _, id := range x.Names {
				add(id)
			}
		case *ast.RangeStmt:
			if id, ok := x.Key.(*ast.Ident); ok {
				add(id)
			}
			if id, ok := x.Value.(*ast.Ident); ok {
				add(id)
			}
		}
		return true
	})
	return out
}

func (t *glTr) switchBody(fn *glFn, list []ast.Stmt) string { return t.block(fn, list) }

// isHoistedCall: is this call one that becomes SCall / SCallExt (rather than a conversion / builtin expression)?
func (t *glTr) isHoistedCall(c *glCtx, x *ast.CallExpr) bool {
	if tv, ok := t.p.info.Types[x.Fun]; ok && tv.IsType() {
		return false
	}
	if callee, _ := t.calleeOf(x); callee != nil {
		return true
	}
	if id, ok := x.Fun.(*ast.Ident); ok && c.fn.funcPars[id.Name] {
		return true
	}
	if f, ok := x.Fun.(*ast.SelectorExpr); ok {
		if sel, ok := t.p.info.Selections[f]; ok && sel.Kind() == types.MethodVal {
			if n := t.foreignMethodName(f); n != "" && t.externs[n] {
				return true
			}
		}
	}
	return t.externs[t.callName(x)]
}

func (t *glTr) funcBody(fn *glFn) string {
	var pre []string
	for i, r := range fn.results {
		if r != "" && r != "_" {
			pre = append(pre, fmt.Sprintf("SAssign (LVar %s) (%s)", glStr(r), t.zero(fn.decl, fn.resTypes[i])))
		}
	}
	body := t.block(fn, fn.decl.Body.List)
	// a function without results that writes through out-parameters returns them when it falls off the end
	tail := ""
	if len(fn.results) == 0 || (len(fn.results) > 0 && fn.results[0] != "") {
		var vals []string
		for _, r := range fn.results {
			vals = append(vals, "EVar "+glStr(r))
		}
		if len(fn.results) == 0 && len(fn.outs) == 0 {
			tail = ""
		} else if len(fn.results) == 0 {
			tail = t.retStmt(fn, nil, nil)
		}
		_ = vals
	}
	return glSeq(append(pre, body, tail))
}

// glWrapVerbArg: the index (among the operands) of the operand formatted by the %w verb of a format string, or -1
func glWrapVerbArg(format string) int {
	k := 0
	for i := 0; i < len(format); i++ {
		if format[i] != '%' {
			continue
		}
		i++
		if i < len(format) && format[i] == '%' {
			continue
		}
		for i < len(format) && strings.ContainsRune("+-# 0123456789.", rune(format[i])) {
			i++
		}
		if i < len(format) {
			if format[i] == 'w' {
				return k
			}
			k++
		}
	}
	return -1
}

// glHasCall: does the expression contain a call that is not a conversion / len / cap?
func glHasCall(e ast.Expr) bool {
	found := false
	ast.Inspect(e, func(n ast.Node) bool {
		if c, ok := n.(*ast.CallExpr); ok {
			if id, ok := c.Fun.(*ast.Ident); ok && (id.Name == "len" || id.Name == "cap" || id.Name == "uint64" || id.Name == "int64" || id.Name == "int" || id.Name == "uint" || id.Name == "uint32" || id.Name == "uint8" || id.Name == "byte") {
				return true
			}
			found = true
		}
		return true
	})
	return found
}

func glIsLenCall(e ast.Expr) bool {
	c, ok := e.(*ast.CallExpr)
	if !ok {
		return false
	}
	id, ok := c.Fun.(*ast.Ident)
	return ok && id.Name == "len"
}
