package main

// C07 translator: the epoch length used by iterBeforeUntilSlot to decide which epochs lie entirely above the
// requested window (`slottools.CalcEpochForSlot(before)` = before / EpochLen). The slot-window theorem is stated
// for this constant; C07_Check.v proves `0 < epoch_len` by computation, so a zero or missing constant breaks the build.

import (
	"fmt"
	"os"
	"path/filepath"
	"strings"
)

func init() {
	register("c07", func(repo string) (string, string, error) {
		ents, err := os.ReadDir(filepath.Join(repo, "slottools"))
		if err != nil {
			return "", "", err
		}
		var val int64
		foundConst, foundFunc := false, false
		for _, e := range ents {
			n := e.Name()
			if e.IsDir() || !strings.HasSuffix(n, ".go") || strings.HasSuffix(n, "_test.go") {
				continue
			}
			_, f, err := parseFile(repo, filepath.Join("slottools", n))
			if err != nil {
				return "", "", err
			}
			if v, err := constInt(f, "EpochLen"); err == nil {
				val, foundConst = v, true
			}
			if funcDecl(f, "", "CalcEpochForSlot") != nil {
				foundFunc = true
			}
		}
		if !foundConst || !foundFunc {
			return "", "", fmt.Errorf("slottools: const EpochLen / func CalcEpochForSlot not found")
		}
		c := coqHeader("C07: slottools.EpochLen (CalcEpochForSlot(slot) = slot / EpochLen).")
		c += fmt.Sprintf("Definition epoch_len : N := %d%%N.\n", val)
		return "ConstsC07.v", c, nil
	})
}
