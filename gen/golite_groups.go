package main

// The functions of /repo that are translated into GoLite on every check (see golite.go). One generated file per Go
// package; a function that several packages share textually translates to the same term, so one proof serves all.

func init() {
	ciFuncs := []glFunc{
		{name: "searchEytzinger"},
		{name: "hashUint64"},
		{recv: "Header", name: "BucketHash"},
		{recv: "BucketHeader", name: "Hash"},
		{name: "uintLe"},
		{name: "eytzinger"},
	}
	ciExt := []string{"xxhash.Sum64", "EntryHash64"}
	registerGoLite(glGroup{id: "golitec04", out: "GoLiteC04.v", pkgDir: "compactindexsized",
		funcs: append(append([]glFunc{}, ciFuncs...), glFunc{name: "putUintLe"}), externs: ciExt})
	registerGoLite(glGroup{id: "golitel36c04", out: "GoLiteL36C04.v", pkgDir: "deprecated/compactindex36", funcs: ciFuncs, externs: ciExt})
	registerGoLite(glGroup{id: "golitel8c04", out: "GoLiteL8C04.v", pkgDir: "deprecated/compactindex", funcs: ciFuncs, externs: ciExt})

	btFuncs := []glFunc{
		{name: "searchEytzinger"},
		{name: "eytzinger"},
		{name: "getCleanSet"},
	}
	registerGoLite(glGroup{id: "golitec05", out: "GoLiteC05.v", pkgDir: "bucketteer",
		funcs: append([]glFunc{{name: "prefixToUint16"}, {name: "uint16ToPrefix"}}, btFuncs...)})
	registerGoLite(glGroup{id: "golitelc05", out: "GoLiteLC05.v", pkgDir: "deprecated/bucketteer", funcs: btFuncs})
	// the positioned-read helpers (short read = error, complete read = success even with io.EOF)
	rdFuncs := []glFunc{{name: "readFullAt"}, {name: "readUint64Le"}}
	rdExt := []string{"io.ReaderAt.ReadAt:out0"}
	registerGoLite(glGroup{id: "goliterdc05", out: "GoLiteRdC05.v", pkgDir: "bucketteer", funcs: rdFuncs, externs: rdExt})
	registerGoLite(glGroup{id: "goliterdlc05", out: "GoLiteRdLC05.v", pkgDir: "deprecated/bucketteer", funcs: rdFuncs, externs: rdExt})
	// (*Reader).Has of the sig-exists index: prefix table, bucket size, section reader, hash, and the search whose getter
	// is a function literal reading the index-th hash through the section reader (translated as "Reader.Has$getter");
	// two readers occur, so the ReadAt oracle is told the receiver
	registerGoLite(glGroup{id: "golitehasc05", out: "GoLiteHasC05.v", pkgDir: "bucketteer",
		funcs: []glFunc{{name: "searchEytzinger"}, {name: "prefixToUint16"}, {name: "readFullAt"}, {name: "readUint64Le"},
			{name: "Hash"}, {recv: "Reader", name: "Has"}},
		externs: []string{"io.ReaderAt.ReadAt:out0", "io.NewSectionReader", "xxhash.Sum64"}, recvArg: true})
	registerGoLite(glGroup{id: "goliterdmain", out: "GoLiteRdMain.v", pkgDir: ".", funcs: []glFunc{{name: "readFullAt"}, {name: "ReadAllFromReaderAt"}}, externs: rdExt})
	registerGoLite(glGroup{id: "golitec03", out: "GoLiteC03.v", pkgDir: ".",
		funcs:   []glFunc{{name: "parseNodeFromSection"}, {name: "readFullAt"}, {name: "readNodeFromReaderAtWithOffsetAndSize"}, {name: "readSectionFromReaderAt"}},
		externs: []string{"binary.Uvarint", "bytes.NewReader", "cid.CidFromReader", "*.Equals", "io.ReaderAt.ReadAt:out0"},
		consts:  map[string]string{"util.MaxAllowedSectionSize": "33554432"}})

	registerGoLite(glGroup{id: "golitec01", out: "GoLiteC01.v", pkgDir: "indexes",
		funcs: []glFunc{
			{name: "Uint24tob"}, {name: "BtoUint24"}, {name: "Uint40tob"}, {name: "BtoUint40"},
			{name: "Uint48tob"}, {name: "BtoUint48"}, {name: "Uint64tob"}, {name: "BtoUint64"}, {name: "cloneAndPad"},
			{recv: "OffsetAndSize", name: "Bytes"}, {recv: "OffsetAndSize", name: "FromBytes"}, {recv: "OffsetAndSize", name: "IsValid"},
		}})
	registerGoLite(glGroup{id: "golitec02", out: "GoLiteC02.v", pkgDir: "slottools",
		funcs: []glFunc{{name: "CalcEpochForSlot"}, {name: "CalcEpochLimits"}, {name: "Uint64RangesHavePartialOverlapIncludingEdges"}}})
	registerGoLite(glGroup{id: "golitec06", out: "GoLiteC06.v", pkgDir: "gsfa/linkedlog",
		funcs: []glFunc{
			{recv: "Bitmap", name: "Get"}, {recv: "Bitmap", name: "Set"}, {recv: "Bitmap", name: "IsEmpty"},
			{recv: "OffsetAndSizeAndSlot", name: "HasMeta"}, {recv: "OffsetAndSizeAndSlot", name: "SetHasMeta"},
			{recv: "OffsetAndSizeAndSlot", name: "IsSuccess"}, {recv: "OffsetAndSizeAndSlot", name: "SetIsSuccess"},
			{recv: "OffsetAndSizeAndSlot", name: "IsVote"}, {recv: "OffsetAndSizeAndSlot", name: "SetIsVote"},
			{recv: "OffsetAndSizeAndSlot", name: "Bytes"}, {recv: "OffsetAndSizeAndSlot", name: "FromBytes"},
			{recv: "uvarintReader", name: "ReadUvarint"}, {recv: "uvarintReader", name: "ReadByte"},
			{recv: "OffsetAndSizeAndSlot", name: "FromReader"},
			{name: "encodeUvarint"},
			{name: "OffsetAndSizeAndSlotSliceFromBytes"},
		},
		externs: []string{"binary.AppendUvarint", "binary.Uvarint", "binary.PutUvarint:out0", "slices.Clip"},
		devirt:  map[string]string{"UvarintReader": "uvarintReader"},
		hoist:   true,
	})
	registerGoLite(glGroup{id: "golitec14", out: "GoLiteC14.v", pkgDir: "ipld/ipldbindcode",
		funcs:   []glFunc{{name: "VerifyHash"}},
		externs: []string{"checksumCrc64", "checksumFnv"}})
	registerGoLite(glGroup{id: "golitec16", out: "GoLiteC16.v", pkgDir: "split-car-fetcher",
		funcs:   []glFunc{{recv: "MultiReaderAt", name: "ReadAt"}, {name: "NewMultiReaderAt"}},
		externs: []string{"io.ReaderAt.ReadAt:out0"}, hoist: true})
	registerGoLite(glGroup{id: "golitec13", out: "GoLiteC13.v", pkgDir: "compactindexsized",
		funcs: []glFunc{
			{name: "uintLe"},
			{recv: "BucketDescriptor", name: "unmarshalEntry"},
			{recv: "Bucket", name: "loadEntry"},
			{name: "bucketOffset"},
			{name: "putUintLe"},
			{recv: "BucketHeader", name: "Load"},
			{recv: "BucketHeader", name: "Store"},
			{recv: "BucketHeader", name: "readFrom"},
		},
		externs: []string{"io.SectionReader.ReadAt:out0", "io.ReaderAt.ReadAt:out0"}, hoist: true})
	// (Bucket).Lookup: the key's hash, then the search whose entry getter is b.loadEntry (the binding is recorded in the
	// generated file); searchEytzinger and Hash are the C04 terms, loadEntry is interpreted in the C13 program
	registerGoLite(glGroup{id: "golitelkc04", out: "GoLiteLkC04.v", pkgDir: "compactindexsized",
		funcs: []glFunc{
			{name: "searchEytzinger"},
			{recv: "BucketHeader", name: "Hash"},
			{recv: "Bucket", name: "Lookup"},
			{recv: "Bucket", name: "loadEntry"},
			{recv: "BucketDescriptor", name: "unmarshalEntry"},
			{name: "uintLe"},
		},
		externs: []string{"EntryHash64", "io.SectionReader.ReadAt:out0"}})
	registerGoLite(glGroup{id: "golitebt", out: "GoLiteBT.v", pkgDir: "blocktimeindex",
		funcs:   []glFunc{{recv: "Index", name: "Get"}, {recv: "Index", name: "Set"}, {name: "blocktimeToBytes"}},
		externs: []string{"NewErrSlotOutOfRange"}})
	// (*LinkedLog).ReadWithSize: the record reader of the address index's linked log (bounds, one positioned read, the
	// record's own length prefix, pointer to the previous record, decompression, the entry decoder)
	registerGoLite(glGroup{id: "golitellc06", out: "GoLiteLLC06.v", pkgDir: "gsfa/linkedlog",
		funcs: []glFunc{
			{recv: "uvarintReader", name: "ReadUvarint"}, {recv: "uvarintReader", name: "ReadByte"},
			{recv: "OffsetAndSizeAndSlot", name: "FromReader"}, {name: "OffsetAndSizeAndSlotSliceFromBytes"},
			{name: "decompressIndexes"}, {recv: "LinkedLog", name: "ReadWithSize"},
		},
		externs: []string{"binary.Uvarint", "tooling.DecompressZstd", "LinkedLog.getCurrentOffset", "os.File.ReadAt:out0",
			"github.com/rpcpool/yellowstone-faithful/indexes.OffsetAndSize.FromBytes:recv"},
		devirt: map[string]string{"UvarintReader": "uvarintReader"}, hoist: true})
	// (*GsfaReader).Get: the walk along an address's chain of records (head from the pubkey index, then ReadWithSize of
	// each previous pointer), with its limit
	registerGoLite(glGroup{id: "golitegetc06", out: "GoLiteGetC06.v", pkgDir: "gsfa",
		funcs: []glFunc{{recv: "GsfaReader", name: "Get"}},
		externs: []string{
			"github.com/rpcpool/yellowstone-faithful/indexes.PubkeyToOffsetAndSize_Reader.Get",
			"compactindexsized.IsNotFound",
			"github.com/rpcpool/yellowstone-faithful/indexes.OffsetAndSize.IsZero",
			"github.com/rpcpool/yellowstone-faithful/gsfa/linkedlog.LinkedLog.ReadWithSize"},
		ignore: []string{"debugln"}, hoist: true, recvArg: true})
}
