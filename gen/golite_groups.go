package main

// The functions of /repo that are translated into GoLite on every check (see golite.go), grouped by the property
// whose theorems are about them.

func init() {
	registerGoLite(glGroup{
		id: "golitec04", out: "GoLiteC04.v", pkgDir: "compactindexsized",
		funcs: []glFunc{
			{name: "searchEytzinger"},
			{name: "hashUint64"},
			{recv: "Header", name: "BucketHash"},
			{recv: "BucketHeader", name: "Hash"},
			{name: "maxCls64"},
			{name: "uintLe"},
			{name: "putUintLe"},
			{name: "eytzinger"},
		},
		externs: []string{"xxhash.Sum64", "EntryHash64"},
	})
}
