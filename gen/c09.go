package main

// C09 translator ("lockgen"): re-reads every non-test Go file of package main in the repository and emits
// coq/Generated/LockProgramsC09.v: for every function, method and function literal of package main whose
// execution touches the RWMutex of MultiEpoch, the dynamic sequence(s) of lock operations it performs
// (RLock | RUnlock | WLock | WUnlock of YF.RW), one Coq `program` per distinct control-flow path.
//
// How a body is translated (names only, no positions — moving code changes nothing):
//   * statements are executed symbolically in order; `if`/`switch`/`select` fork one path per branch; loop
//     bodies are taken 0, 1 and 2 times (two iterations expose every imbalance of a loop body: a body that
//     does not return to the mode it started in fails at the first lock operation of the next iteration);
//   * `return` and `panic(...)` end a path; `break`/`continue` (also labelled) are followed;
//   * `defer f(...)` / `defer func(){...}()` run at function exit, last in first out;
//   * a call whose static callee is a function or method declared in package main is INLINED (whether or not the
//     lock is held at the call), so the program of a function is the complete trace of the call, including
//     nested acquisitions made by callees; immediately-invoked function literals are inlined as well;
//   * `go f(...)` runs elsewhere: a `go func(){...}()` literal gets its own program; other function literals
//     (callbacks) get their own program too and, when they appear while the lock is held, are additionally
//     inlined at that point (conservative: a callee may run the callback synchronously);
//   * calls through interfaces or function values are not followed (the dynamic lock-trace correspondence of
//     the harness covers the accessors actually exercised).
// Types are resolved with go/types over the package's own declarations; imports are replaced by empty stub
// packages (works offline, nothing outside /repo/*.go is read), type errors caused by that are ignored.
//
// The translator also reports accesses of map-typed fields of MultiEpoch (the epoch map) made on a path where
// the lock is not held (transitively through the static call graph): `unguarded_map_access`.

import (
	"fmt"
	"go/ast"
	"go/build"
	"go/parser"
	"go/token"
	"go/types"
	"os"
	"path/filepath"
	"sort"
	"strings"
)

func init() { register("c09", genC09) }

const (
	c09Struct    = "MultiEpoch"
	c09MaxStates = 4096
)

type c09Importer struct{ pkgs map[string]*types.Package }

func (im *c09Importer) Import(path string) (*types.Package, error) {
	if p, ok := im.pkgs[path]; ok {
		return p, nil
	}
	name := path
	if i := strings.LastIndex(name, "/"); i >= 0 {
		name = name[i+1:]
	}
	// gopkg.in/yaml.v3 -> yaml ; github.com/x/go-foo keeps its last element (only used for error-tolerant checking)
	if i := strings.Index(name, ".v"); i > 0 {
		name = name[:i]
	}
	name = strings.ReplaceAll(name, "-", "_")
	p := types.NewPackage(path, name)
	p.MarkComplete()
	im.pkgs[path] = p
	return p, nil
}

// one symbolic path: ops performed so far + pending defers (each an op string), innermost last
type c09State struct {
	ops    string
	defers []string
}

func (s c09State) key() string { return s.ops + "|" + strings.Join(s.defers, ",") }

type c09Set map[string]c09State

func (a c09Set) add(s c09State) { a[s.key()] = s }
func (a c09Set) union(b c09Set) c09Set {
	for _, s := range b {
		a.add(s)
	}
	return a
}
func c09Single() c09Set { s := c09Set{}; s.add(c09State{}); return s }

type c09Jump struct {
	label string
	st    c09State
}

// result of executing a statement
type c09Out struct {
	normal    c09Set
	returned  c09Set
	breaks    []c09Jump
	continues []c09Jump
}

type c09Func struct {
	name     string
	body     *ast.BlockStmt
	decl     *ast.FuncDecl // nil for literals
	separate bool          // literal that gets its own program
	traces   []string      // memo
	done     bool
	busy     bool
	direct   bool // contains a lock operation itself
	// unguarded-access analysis
	accessOut bool            // accesses a guarded field on a path where (locally) the lock is not held
	callsOut  map[string]bool // callees called at a point where (locally) the lock is not held
	writeNoW  bool            // writes a guarded map on a path where (locally) the WRITE lock is not held
	callsNoW  map[string]bool // callees called at a point where (locally) the write lock is not held
	nCallers  int
}

type c09Gen struct {
	fset      *token.FileSet
	info      *types.Info
	lockField string
	guarded   map[string]bool // map-typed fields of MultiEpoch
	funcs     map[types.Object]*c09Func
	lits      map[*ast.FuncLit]*c09Func
	all       []*c09Func
	cur       []*c09Func // analysis stack
	err       error
	recursive map[string]bool
}

func genC09(repo string) (string, string, error) {
	fset := token.NewFileSet()
	ents, err := os.ReadDir(repo)
	if err != nil {
		return "", "", err
	}
	var files []*ast.File
	for _, e := range ents {
		n := e.Name()
		if e.IsDir() || !strings.HasSuffix(n, ".go") || strings.HasSuffix(n, "_test.go") {
			continue
		}
		if ok, err := build.Default.MatchFile(repo, n); err != nil || !ok {
			continue
		}
		f, err := parser.ParseFile(fset, filepath.Join(repo, n), nil, parser.SkipObjectResolution)
		if err != nil {
			return "", "", fmt.Errorf("parse %s: %v", n, err)
		}
		if f.Name.Name != "main" {
			continue
		}
		files = append(files, f)
	}
	if len(files) == 0 {
		return "", "", fmt.Errorf("no package main files in %s", repo)
	}
	g := &c09Gen{fset: fset, guarded: map[string]bool{}, funcs: map[types.Object]*c09Func{}, lits: map[*ast.FuncLit]*c09Func{}, recursive: map[string]bool{}}
	// the struct and its RWMutex field, syntactically
	for _, f := range files {
		for _, d := range f.Decls {
			gd, ok := d.(*ast.GenDecl)
			if !ok || gd.Tok != token.TYPE {
				continue
			}
			for _, sp := range gd.Specs {
				ts := sp.(*ast.TypeSpec)
				st, ok := ts.Type.(*ast.StructType)
				if !ok || ts.Name.Name != c09Struct {
					continue
				}
				for _, fl := range st.Fields.List {
					if se, ok := fl.Type.(*ast.SelectorExpr); ok {
						if id, ok := se.X.(*ast.Ident); ok && id.Name == "sync" && se.Sel.Name == "RWMutex" && len(fl.Names) == 1 {
							if g.lockField != "" {
								return "", "", fmt.Errorf("%s has more than one sync.RWMutex field", c09Struct)
							}
							g.lockField = fl.Names[0].Name
						}
					}
					if _, ok := fl.Type.(*ast.MapType); ok {
						for _, n := range fl.Names {
							g.guarded[n.Name] = true
						}
					}
				}
			}
		}
	}
	if g.lockField == "" {
		return "", "", fmt.Errorf("struct %s with a sync.RWMutex field not found in package main", c09Struct)
	}
	conf := types.Config{
		Importer:                 &c09Importer{pkgs: map[string]*types.Package{}},
		Error:                    func(error) {},
		FakeImportC:              true,
		DisableUnusedImportCheck: true,
	}
	g.info = &types.Info{
		Types:      map[ast.Expr]types.TypeAndValue{},
		Defs:       map[*ast.Ident]types.Object{},
		Uses:       map[*ast.Ident]types.Object{},
		Selections: map[*ast.SelectorExpr]*types.Selection{},
	}
	_, _ = conf.Check("main", fset, files, g.info) // errors from the stub imports are expected

	// function table (declarations first, literals numbered in source order inside their declaration)
	for _, f := range files {
		for _, d := range f.Decls {
			fd, ok := d.(*ast.FuncDecl)
			if !ok || fd.Body == nil {
				continue
			}
			name := fd.Name.Name
			if fd.Recv != nil && len(fd.Recv.List) == 1 {
				name = c09RecvName(fd.Recv.List[0].Type) + "." + name
			}
			fn := &c09Func{name: name, body: fd.Body, decl: fd, callsOut: map[string]bool{}, callsNoW: map[string]bool{}}
			if obj := g.info.Defs[fd.Name]; obj != nil {
				g.funcs[obj] = fn
			}
			g.all = append(g.all, fn)
			n := 0
			ast.Inspect(fd.Body, func(x ast.Node) bool {
				if fl, ok := x.(*ast.FuncLit); ok {
					n++
					lf := &c09Func{name: fmt.Sprintf("%s$lit%d", name, n), body: fl.Body, callsOut: map[string]bool{}, callsNoW: map[string]bool{}}
					g.lits[fl] = lf
					g.all = append(g.all, lf)
				}
				return true
			})
		}
		// literals in package-level variable initialisers
		for _, d := range f.Decls {
			gd, ok := d.(*ast.GenDecl)
			if !ok || gd.Tok != token.VAR {
				continue
			}
			for _, sp := range gd.Specs {
				vs := sp.(*ast.ValueSpec)
				for i, v := range vs.Values {
					n := 0
					base := "var"
					if i < len(vs.Names) {
						base = "var." + vs.Names[i].Name
					}
					ast.Inspect(v, func(x ast.Node) bool {
						if fl, ok := x.(*ast.FuncLit); ok {
							n++
							lf := &c09Func{name: fmt.Sprintf("%s$lit%d", base, n), body: fl.Body, separate: true, callsOut: map[string]bool{}, callsNoW: map[string]bool{}}
							g.lits[fl] = lf
							g.all = append(g.all, lf)
						}
						return true
					})
				}
			}
		}
	}
	for _, fn := range g.all {
		g.tracesOf(fn)
		if g.err != nil {
			return "", "", g.err
		}
	}
	// ---- unguarded access: flagged roots, propagated along calls made while (locally) not holding the lock
	byName := map[string][]*c09Func{}
	for _, fn := range g.all {
		byName[fn.name] = append(byName[fn.name], fn)
	}
	reported := map[string]bool{}
	var mark func(fn *c09Func)
	mark = func(fn *c09Func) {
		if reported[fn.name] {
			return
		}
		reported[fn.name] = true
		for callee := range fn.callsOut {
			for _, c := range byName[callee] {
				if c.accessOut {
					mark(c)
				}
			}
		}
	}
	for _, fn := range g.all {
		if fn.accessOut && ((fn.decl != nil && fn.nCallers == 0) || (fn.decl == nil && fn.separate)) {
			mark(fn)
		}
	}
	var unguarded []string
	for n := range reported {
		unguarded = append(unguarded, n)
	}
	sort.Strings(unguarded)
	reportedW := map[string]bool{}
	var markW func(fn *c09Func)
	markW = func(fn *c09Func) {
		if reportedW[fn.name] {
			return
		}
		reportedW[fn.name] = true
		for callee := range fn.callsNoW {
			for _, c := range byName[callee] {
				if c.writeNoW {
					markW(c)
				}
			}
		}
	}
	for _, fn := range g.all {
		if fn.writeNoW && ((fn.decl != nil && fn.nCallers == 0) || (fn.decl == nil && fn.separate)) {
			markW(fn)
		}
	}
	var badWrites []string
	for n := range reportedW {
		badWrites = append(badWrites, n)
	}
	sort.Strings(badWrites)

	// ---- output
	type entry struct {
		name  string
		trace string
	}
	var entries []entry
	var direct []string
	seenName := map[string]bool{}
	for _, fn := range g.all {
		if fn.decl == nil && !fn.separate {
			continue
		}
		nonEmpty := false
		for _, t := range fn.traces {
			if t != "" {
				nonEmpty = true
			}
		}
		if !nonEmpty {
			continue
		}
		if seenName[fn.name] {
			return "", "", fmt.Errorf("two functions named %s", fn.name)
		}
		seenName[fn.name] = true
		if fn.direct {
			direct = append(direct, fn.name)
		}
		for _, t := range fn.traces {
			entries = append(entries, entry{fn.name, t})
		}
	}
	if len(entries) == 0 {
		return "", "", fmt.Errorf("no function of package main operates %s.%s", c09Struct, g.lockField)
	}
	sort.Slice(entries, func(i, j int) bool {
		if entries[i].name != entries[j].name {
			return entries[i].name < entries[j].name
		}
		return entries[i].trace < entries[j].trace
	})
	sort.Strings(direct)
	var sb strings.Builder
	sb.WriteString(coqHeader("C09: lock programs of package main over " + c09Struct + "." + g.lockField +
		" (one program per function and distinct control-flow path; callees inlined; loops unrolled 0..2 times)."))
	sb.WriteString("Require Import YF.RW.\nLocal Open Scope string_scope.\n\n")
	fmt.Fprintf(&sb, "Definition lock_name : string := \"%s.%s\".\n\n", c09Struct, g.lockField)
	sb.WriteString("Definition named_programs : list (string * list op) := [\n")
	for i, e := range entries {
		sep := ";"
		if i == len(entries)-1 {
			sep = ""
		}
		fmt.Fprintf(&sb, "  (\"%s\", %s)%s\n", e.name, c09CoqOps(e.trace), sep)
	}
	sb.WriteString("].\n\nDefinition programs : list (list op) := map snd named_programs.\n\n")
	sb.WriteString("(* functions that operate the lock themselves (not only through callees) *)\n")
	sb.WriteString("Definition direct_lockers : list string := " + c09CoqStrings(direct) + ".\n\n")
	sb.WriteString("(* functions reading or writing a map field of " + c09Struct + " on a path where the lock is not held *)\n")
	sb.WriteString("Definition unguarded_map_access : list string := " + c09CoqStrings(unguarded) + ".\n\n")
	sb.WriteString("(* functions assigning to / deleting from a map field of " + c09Struct + " on a path where the WRITE lock is not held *)\n")
	sb.WriteString("Definition map_write_without_wlock : list string := " + c09CoqStrings(badWrites) + ".\n")
	var rs []string
	for _, fn := range g.all {
		if g.recursive[fn.name] && len(fn.traces) > 0 && !(len(fn.traces) == 1 && fn.traces[0] == "") {
			rs = append(rs, fn.name)
		}
	}
	if len(rs) > 0 {
		sort.Strings(rs)
		sb.WriteString("\n(* recursive call cycles cut at: " + strings.Join(rs, ", ") + " *)\n")
	}
	return "LockProgramsC09.v", sb.String(), nil
}

func c09RecvName(t ast.Expr) string {
	for {
		switch x := t.(type) {
		case *ast.StarExpr:
			t = x.X
		case *ast.ParenExpr:
			t = x.X
		case *ast.IndexExpr:
			t = x.X
		case *ast.IndexListExpr:
			t = x.X
		case *ast.Ident:
			return x.Name
		default:
			return "?"
		}
	}
}

func c09CoqOps(t string) string {
	if t == "" {
		return "[]"
	}
	parts := make([]string, 0, len(t))
	for _, c := range t {
		switch c {
		case 'R':
			parts = append(parts, "RLock")
		case 'r':
			parts = append(parts, "RUnlock")
		case 'L':
			parts = append(parts, "WLock")
		case 'l':
			parts = append(parts, "WUnlock")
		}
	}
	return "[" + strings.Join(parts, "; ") + "]"
}

func c09CoqStrings(xs []string) string {
	if len(xs) == 0 {
		return "[]"
	}
	q := make([]string, len(xs))
	for i, x := range xs {
		q[i] = "\"" + x + "\""
	}
	return "[" + strings.Join(q, "; ") + "]"
}

// held reports whether, after ops (started with the lock not held), the lock is held (depth counting).
func c09Held(ops string) bool {
	d := 0
	for _, c := range ops {
		switch c {
		case 'R', 'L':
			d++
		case 'r', 'l':
			if d > 0 {
				d--
			}
		}
	}
	return d > 0
}

// c09WriteHeld reports whether, after ops, the innermost acquisition still held is a write lock.
func c09WriteHeld(ops string) bool {
	var st []rune
	for _, c := range ops {
		switch c {
		case 'R', 'L':
			st = append(st, c)
		case 'r', 'l':
			if len(st) > 0 {
				st = st[:len(st)-1]
			}
		}
	}
	return len(st) > 0 && st[len(st)-1] == 'L'
}

// guardedSel: e is <expr of type (*)MultiEpoch>.<map field>
func (g *c09Gen) guardedSel(e ast.Expr) bool {
	sel, ok := c09Unparen(e).(*ast.SelectorExpr)
	return ok && g.guarded[sel.Sel.Name] && g.isMulti(sel.X)
}

// noteWrite records a write to a guarded map made in the states `at`.
func (g *c09Gen) noteWrite(at c09Set) {
	fn := g.cur[len(g.cur)-1]
	for _, s := range at {
		if !c09WriteHeld(s.ops) {
			fn.writeNoW = true
		}
	}
}

// ---------------------------------------------------------------- traces of a function

func (g *c09Gen) tracesOf(fn *c09Func) []string {
	if fn.done {
		return fn.traces
	}
	if fn.busy {
		g.recursive[fn.name] = true
		return []string{""}
	}
	fn.busy = true
	g.cur = append(g.cur, fn)
	out := g.execBlock(fn.body.List, c09Single())
	g.cur = g.cur[:len(g.cur)-1]
	fn.busy = false
	final := c09Set{}.union(out.normal).union(out.returned)
	for _, j := range out.breaks {
		final.add(j.st)
	}
	for _, j := range out.continues {
		final.add(j.st)
	}
	set := map[string]bool{}
	for _, s := range final {
		t := s.ops
		for i := len(s.defers) - 1; i >= 0; i-- {
			t += s.defers[i]
		}
		set[t] = true
	}
	var ts []string
	for t := range set {
		ts = append(ts, t)
	}
	sort.Strings(ts)
	fn.traces = ts
	fn.done = true
	return ts
}

func (g *c09Gen) fail(format string, a ...interface{}) {
	if g.err == nil {
		g.err = fmt.Errorf(format, a...)
	}
}

func (g *c09Gen) check(s c09Set) c09Set {
	if len(s) > c09MaxStates {
		g.fail("c09: more than %d symbolic paths in %s", c09MaxStates, g.cur[len(g.cur)-1].name)
		return c09Single()
	}
	return s
}

func (g *c09Gen) execBlock(list []ast.Stmt, in c09Set) c09Out {
	out := c09Out{normal: in, returned: c09Set{}}
	for _, st := range list {
		if len(out.normal) == 0 {
			break
		}
		o := g.exec(st, out.normal, "")
		out.normal = g.check(o.normal)
		out.returned.union(o.returned)
		out.breaks = append(out.breaks, o.breaks...)
		out.continues = append(out.continues, o.continues...)
	}
	return out
}

func c09Absorb(js []c09Jump, label string, into c09Set) []c09Jump {
	var rest []c09Jump
	for _, j := range js {
		if j.label == "" || (label != "" && j.label == label) {
			into.add(j.st)
		} else {
			rest = append(rest, j)
		}
	}
	return rest
}

func (g *c09Gen) exec(st ast.Stmt, in c09Set, label string) c09Out {
	out := c09Out{normal: c09Set{}, returned: c09Set{}}
	if g.err != nil {
		out.normal = in
		return out
	}
	switch s := st.(type) {
	case nil:
		out.normal = in
	case *ast.BlockStmt:
		return g.execBlock(s.List, in)
	case *ast.LabeledStmt:
		return g.exec(s.Stmt, in, s.Label.Name)
	case *ast.ExprStmt:
		cur, term := g.evalTop(s.X, in)
		if term {
			out.returned = cur
		} else {
			out.normal = cur
		}
	case *ast.AssignStmt:
		cur := in
		for _, e := range s.Rhs {
			cur = g.eval(e, cur)
		}
		for _, e := range s.Lhs {
			cur = g.eval(e, cur)
			if ix, ok := c09Unparen(e).(*ast.IndexExpr); ok && g.guardedSel(ix.X) {
				g.noteWrite(cur)
			} else if g.guardedSel(e) {
				g.noteWrite(cur)
			}
		}
		out.normal = cur
	case *ast.DeclStmt:
		cur := in
		if gd, ok := s.Decl.(*ast.GenDecl); ok {
			for _, sp := range gd.Specs {
				if vs, ok := sp.(*ast.ValueSpec); ok {
					for _, v := range vs.Values {
						cur = g.eval(v, cur)
					}
				}
			}
		}
		out.normal = cur
	case *ast.IncDecStmt:
		out.normal = g.eval(s.X, in)
	case *ast.SendStmt:
		out.normal = g.eval(s.Value, g.eval(s.Chan, in))
	case *ast.ReturnStmt:
		cur := in
		for _, e := range s.Results {
			cur = g.eval(e, cur)
		}
		out.returned = cur
	case *ast.BranchStmt:
		lab := ""
		if s.Label != nil {
			lab = s.Label.Name
		}
		switch s.Tok {
		case token.BREAK:
			for _, x := range in {
				out.breaks = append(out.breaks, c09Jump{lab, x})
			}
		case token.CONTINUE:
			for _, x := range in {
				out.continues = append(out.continues, c09Jump{lab, x})
			}
		case token.GOTO:
			g.fail("c09: goto in %s is not supported by the lock-program translator", g.cur[len(g.cur)-1].name)
		default: // fallthrough: continue with the next clause is approximated by leaving the clause
			out.normal = in
		}
	case *ast.GoStmt:
		cur := in
		for _, a := range s.Call.Args {
			cur = g.eval(a, cur)
		}
		if fl, ok := c09Unparen(s.Call.Fun).(*ast.FuncLit); ok {
			if lf := g.lits[fl]; lf != nil {
				lf.separate = true
			}
		} else {
			cur = g.evalFunOperand(s.Call.Fun, cur)
		}
		out.normal = cur
	case *ast.DeferStmt:
		cur := in
		for _, a := range s.Call.Args {
			cur = g.eval(a, cur)
		}
		cur = g.evalFunOperand(s.Call.Fun, cur)
		alts, callee := g.callTraces(s.Call)
		g.noteCall(callee, cur)
		res := c09Set{}
		for _, x := range cur {
			for _, t := range alts {
				d := append(append([]string{}, x.defers...), t)
				if t == "" {
					d = x.defers
				}
				res.add(c09State{x.ops, d})
			}
		}
		out.normal = g.check(res)
	case *ast.IfStmt:
		cur := in
		if s.Init != nil {
			o := g.exec(s.Init, cur, "")
			cur = o.normal
		}
		cur = g.eval(s.Cond, cur)
		a := g.exec(s.Body, c09Copy(cur), "")
		var b c09Out
		if s.Else != nil {
			b = g.exec(s.Else, c09Copy(cur), "")
		} else {
			b = c09Out{normal: c09Copy(cur), returned: c09Set{}}
		}
		out.normal = a.normal.union(b.normal)
		out.returned = a.returned.union(b.returned)
		out.breaks = append(a.breaks, b.breaks...)
		out.continues = append(a.continues, b.continues...)
	case *ast.ForStmt:
		cur := in
		if s.Init != nil {
			cur = g.exec(s.Init, cur, "").normal
		}
		exits := c09Set{}
		for iter := 0; iter < 2; iter++ {
			if s.Cond != nil {
				cur = g.eval(s.Cond, cur)
				exits.union(c09Copy(cur))
			}
			o := g.exec(s.Body, c09Copy(cur), "")
			out.returned.union(o.returned)
			next := o.normal
			out.breaks = append(out.breaks, c09Absorb(o.breaks, label, exits)...)
			out.continues = append(out.continues, c09Absorb(o.continues, label, next)...)
			if s.Post != nil {
				next = g.exec(s.Post, next, "").normal
			}
			cur = g.check(next)
		}
		if s.Cond != nil {
			cur = g.eval(s.Cond, cur)
		}
		// after two iterations: leave the loop (also for `for {}`: the analysis must terminate; a body that never
		// breaks contributes its two-iteration trace)
		exits.union(cur)
		out.normal = g.check(exits)
	case *ast.RangeStmt:
		cur := g.eval(s.X, in)
		exits := c09Copy(cur)
		for iter := 0; iter < 2; iter++ {
			o := g.exec(s.Body, c09Copy(cur), "")
			out.returned.union(o.returned)
			next := o.normal
			out.breaks = append(out.breaks, c09Absorb(o.breaks, label, exits)...)
			out.continues = append(out.continues, c09Absorb(o.continues, label, next)...)
			cur = g.check(next)
			exits.union(c09Copy(cur))
		}
		out.normal = g.check(exits)
	case *ast.SwitchStmt:
		cur := in
		if s.Init != nil {
			cur = g.exec(s.Init, cur, "").normal
		}
		if s.Tag != nil {
			cur = g.eval(s.Tag, cur)
		}
		g.execClauses(s.Body, cur, label, &out)
	case *ast.TypeSwitchStmt:
		cur := in
		if s.Init != nil {
			cur = g.exec(s.Init, cur, "").normal
		}
		cur = g.exec(s.Assign, cur, "").normal
		g.execClauses(s.Body, cur, label, &out)
	case *ast.SelectStmt:
		g.execClauses(s.Body, in, label, &out)
	default:
		out.normal = in
	}
	return out
}

func c09Copy(s c09Set) c09Set { return c09Set{}.union(s) }

func (g *c09Gen) execClauses(body *ast.BlockStmt, in c09Set, label string, out *c09Out) {
	hasDefault := false
	exits := c09Set{}
	for _, cl := range body.List {
		cur := c09Copy(in)
		var stmts []ast.Stmt
		switch c := cl.(type) {
		case *ast.CaseClause:
			if c.List == nil {
				hasDefault = true
			}
			for _, e := range c.List {
				cur = g.eval(e, cur)
			}
			stmts = c.Body
		case *ast.CommClause:
			if c.Comm == nil {
				hasDefault = true
			} else {
				cur = g.exec(c.Comm, cur, "").normal
			}
			stmts = c.Body
		}
		o := g.execBlock(stmts, cur)
		exits.union(o.normal)
		out.returned.union(o.returned)
		out.breaks = append(out.breaks, c09Absorb(o.breaks, label, exits)...)
		out.continues = append(out.continues, o.continues...)
	}
	if !hasDefault {
		// a switch without default may match no clause (a select without default blocks until one is ready; keeping
		// the pass-through path there as well only adds the trace "nothing happened")
		exits.union(c09Copy(in))
	}
	out.normal = g.check(exits)
}

func c09Unparen(e ast.Expr) ast.Expr {
	for {
		p, ok := e.(*ast.ParenExpr)
		if !ok {
			return e
		}
		e = p.X
	}
}

// evalTop evaluates an expression statement; term = the statement is a call of the builtin panic.
func (g *c09Gen) evalTop(e ast.Expr, in c09Set) (c09Set, bool) {
	cur := g.eval(e, in)
	if call, ok := c09Unparen(e).(*ast.CallExpr); ok {
		if id, ok := c09Unparen(call.Fun).(*ast.Ident); ok && id.Name == "panic" {
			if _, isBuiltin := g.info.Uses[id].(*types.Builtin); isBuiltin || g.info.Uses[id] == nil {
				return cur, true
			}
		}
	}
	return cur, false
}

// evalFunOperand evaluates the operand part of a call's function expression (receiver expression etc.).
func (g *c09Gen) evalFunOperand(fun ast.Expr, in c09Set) c09Set {
	switch f := c09Unparen(fun).(type) {
	case *ast.SelectorExpr:
		return g.eval(f.X, in)
	case *ast.FuncLit, *ast.Ident:
		return in
	default:
		return g.eval(f, in)
	}
}

// eval walks an expression in evaluation order and applies the effect of every call in it.
func (g *c09Gen) eval(e ast.Expr, in c09Set) c09Set {
	if e == nil || g.err != nil {
		return in
	}
	cur := in
	switch x := e.(type) {
	case *ast.CallExpr:
		cur = g.evalFunOperand(x.Fun, cur)
		for _, a := range x.Args {
			cur = g.eval(a, cur)
		}
		if id, ok := c09Unparen(x.Fun).(*ast.Ident); ok && (id.Name == "delete" || id.Name == "clear") && len(x.Args) > 0 && g.guardedSel(x.Args[0]) {
			if _, isBuiltin := g.info.Uses[id].(*types.Builtin); isBuiltin {
				g.noteWrite(cur)
			}
		}
		alts, callee := g.callTraces(x)
		g.noteCall(callee, cur)
		if len(alts) == 1 && alts[0] == "" {
			return cur
		}
		res := c09Set{}
		for _, s := range cur {
			for _, t := range alts {
				res.add(c09State{s.ops + t, s.defers})
			}
		}
		return g.check(res)
	case *ast.FuncLit:
		lf := g.lits[x]
		if lf == nil {
			return cur
		}
		lf.separate = true
		ts := g.tracesOf(lf)
		// conservative: a callback created while the lock is held may be run synchronously by the callee
		res := c09Set{}
		for _, s := range cur {
			res.add(s)
			if c09Held(s.ops) {
				for _, t := range ts {
					res.add(c09State{s.ops + t, s.defers})
				}
			}
		}
		return g.check(res)
	case *ast.ParenExpr:
		return g.eval(x.X, cur)
	case *ast.SelectorExpr:
		cur = g.eval(x.X, cur)
		if g.guarded[x.Sel.Name] && g.isMulti(x.X) {
			fn := g.cur[len(g.cur)-1]
			for _, s := range cur {
				if !c09Held(s.ops) {
					fn.accessOut = true
				}
			}
		}
		return cur
	case *ast.IndexExpr:
		return g.eval(x.Index, g.eval(x.X, cur))
	case *ast.IndexListExpr:
		cur = g.eval(x.X, cur)
		for _, i := range x.Indices {
			cur = g.eval(i, cur)
		}
		return cur
	case *ast.SliceExpr:
		cur = g.eval(x.X, cur)
		cur = g.eval(x.Low, cur)
		cur = g.eval(x.High, cur)
		return g.eval(x.Max, cur)
	case *ast.StarExpr:
		return g.eval(x.X, cur)
	case *ast.UnaryExpr:
		return g.eval(x.X, cur)
	case *ast.BinaryExpr:
		// && and || may skip the right operand: both paths
		l := g.eval(x.X, cur)
		if x.Op == token.LAND || x.Op == token.LOR {
			return g.check(c09Copy(l).union(g.eval(x.Y, c09Copy(l))))
		}
		return g.eval(x.Y, l)
	case *ast.KeyValueExpr:
		return g.eval(x.Value, g.eval(x.Key, cur))
	case *ast.CompositeLit:
		for _, el := range x.Elts {
			cur = g.eval(el, cur)
		}
		return cur
	case *ast.TypeAssertExpr:
		return g.eval(x.X, cur)
	}
	return cur
}

func (g *c09Gen) isMulti(e ast.Expr) bool {
	tv, ok := g.info.Types[e]
	if !ok || tv.Type == nil {
		return false
	}
	t := tv.Type
	if p, ok := t.(*types.Pointer); ok {
		t = p.Elem()
	}
	n, ok := t.(*types.Named)
	return ok && n.Obj().Name() == c09Struct && n.Obj().Pkg() != nil && n.Obj().Pkg().Name() == "main"
}

// noteCall: bookkeeping for the unguarded-access analysis. A call made on a path where the caller (locally) does
// not hold the lock exposes the callee's unguarded accesses.
func (g *c09Gen) noteCall(callee *c09Func, at c09Set) {
	if callee == nil {
		return
	}
	caller := g.cur[len(g.cur)-1]
	callee.nCallers++
	for _, s := range at {
		if !c09Held(s.ops) {
			caller.callsOut[callee.name] = true
			if callee.accessOut {
				caller.accessOut = true
			}
			break
		}
	}
	for _, s := range at {
		if !c09WriteHeld(s.ops) {
			caller.callsNoW[callee.name] = true
			if callee.writeNoW {
				caller.writeNoW = true
			}
			break
		}
	}
}

// callTraces: the alternatives of lock-operation strings performed by one call (callee inlined).
func (g *c09Gen) callTraces(call *ast.CallExpr) ([]string, *c09Func) {
	fun := c09Unparen(call.Fun)
	caller := g.cur[len(g.cur)-1]
	// lock operation: <expr of type (*)MultiEpoch>.<lockField>.<Op>()
	if sel, ok := fun.(*ast.SelectorExpr); ok {
		if inner, ok := c09Unparen(sel.X).(*ast.SelectorExpr); ok && inner.Sel.Name == g.lockField && g.isMulti(inner.X) {
			caller.direct = true
			switch sel.Sel.Name {
			case "RLock":
				return []string{"R"}, nil
			case "RUnlock":
				return []string{"r"}, nil
			case "Lock":
				return []string{"L"}, nil
			case "Unlock":
				return []string{"l"}, nil
			default:
				g.fail("c09: %s uses %s.%s.%s, which the lock model does not cover", caller.name, c09Struct, g.lockField, sel.Sel.Name)
				return []string{""}, nil
			}
		}
	}
	var callee *c09Func
	switch f := fun.(type) {
	case *ast.FuncLit:
		callee = g.lits[f]
	case *ast.Ident:
		if obj, ok := g.info.Uses[f].(*types.Func); ok {
			callee = g.funcs[obj.Origin()]
		}
	case *ast.SelectorExpr:
		if sel := g.info.Selections[f]; sel != nil {
			if obj, ok := sel.Obj().(*types.Func); ok && sel.Kind() == types.MethodVal {
				callee = g.funcs[obj.Origin()]
			}
		} else if obj, ok := g.info.Uses[f.Sel].(*types.Func); ok {
			callee = g.funcs[obj.Origin()]
		}
	case *ast.IndexExpr: // explicit instantiation f[T](...)
		if id, ok := c09Unparen(f.X).(*ast.Ident); ok {
			if obj, ok := g.info.Uses[id].(*types.Func); ok {
				callee = g.funcs[obj.Origin()]
			}
		}
	}
	if callee == nil {
		return []string{""}, nil
	}
	return g.tracesOf(callee), callee
}
