package main

// C15 translator: the two constants of accum/block.go the C15 development refers to, re-read from the
// repository on every check and written to coq/Generated/ConstsC15.v:
//   flush_queue_capacity  – capacity of the channel built in NewObjectAccumulator (`flushQueue: make(chan *flushBuffer, N)`;
//                           0 when the channel is unbuffered). Properties/C15.v proves `1 <= capacity` from it and
//                           instantiates the deadlock-freedom theorem with it.
//   children_prealloc     – `objectCap := N` in Run (capacity each children slice is allocated with); the harness
//                           generates blocks with more children than this.

import (
	"fmt"
	"go/ast"
	"go/token"
)

func init() { register("c15", genC15) }

func genC15(repo string) (string, string, error) {
	_, f, err := parseFile(repo, "accum/block.go")
	if err != nil {
		return "", "", err
	}
	ctor := funcDecl(f, "", "NewObjectAccumulator")
	if ctor == nil {
		return "", "", fmt.Errorf("accum/block.go: NewObjectAccumulator not found")
	}
	capacity := int64(-1)
	ast.Inspect(ctor, func(n ast.Node) bool {
		kv, ok := n.(*ast.KeyValueExpr)
		if !ok {
			return true
		}
		k, ok := kv.Key.(*ast.Ident)
		if !ok || k.Name != "flushQueue" {
			return true
		}
		call, ok := kv.Value.(*ast.CallExpr)
		if !ok {
			return true
		}
		if fn, ok := call.Fun.(*ast.Ident); !ok || fn.Name != "make" {
			return true
		}
		if _, ok := call.Args[0].(*ast.ChanType); !ok {
			return true
		}
		if len(call.Args) == 1 {
			capacity = 0
			return false
		}
		if v, err := evalInt(call.Args[1]); err == nil {
			capacity = v
		}
		return false
	})
	if capacity < 0 {
		return "", "", fmt.Errorf("accum/block.go: `flushQueue: make(chan ..., <constant>)` not found in NewObjectAccumulator")
	}
	runFn := funcDecl(f, "ObjectAccumulator", "Run")
	if runFn == nil {
		return "", "", fmt.Errorf("accum/block.go: (*ObjectAccumulator).Run not found")
	}
	prealloc := int64(-1)
	ast.Inspect(runFn, func(n ast.Node) bool {
		as, ok := n.(*ast.AssignStmt)
		if !ok || as.Tok != token.DEFINE || len(as.Lhs) != 1 || len(as.Rhs) != 1 {
			return true
		}
		if id, ok := as.Lhs[0].(*ast.Ident); ok && id.Name == "objectCap" {
			if v, err := evalInt(as.Rhs[0]); err == nil {
				prealloc = v
			}
		}
		return true
	})
	if prealloc < 0 {
		return "", "", fmt.Errorf("accum/block.go: `objectCap := <constant>` not found in Run")
	}
	s := coqHeader("C15: constants of accum/block.go (NewObjectAccumulator, Run).")
	s += fmt.Sprintf("Definition flush_queue_capacity : N := %d%%N.\n", capacity)
	s += fmt.Sprintf("Definition children_prealloc : N := %d%%N.\n", prealloc)
	return "ConstsC15.v", s, nil
}
