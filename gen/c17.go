package main

// C17 translator: the range predicates of range-cache/range-cache.go — one-line boolean functions over the bounds of
// [start, end) ranges — are translated into Coq boolean expressions over Z (coq/Generated/RangePredsC17.v).
// YF.C17_Preds proves that they are the predicates the model of the cache uses. A body that is not a single
// `return <boolean expression over comparisons of r[0], r[1], r2[0], r2[1], size and integer literals>` is an error.

import (
	"fmt"
	"go/ast"
	"go/token"
	"strings"
)

func init() { register("c17", genC17) }

func c17Operand(e ast.Expr) (string, error) {
	switch x := e.(type) {
	case *ast.ParenExpr:
		return c17Operand(x.X)
	case *ast.BasicLit:
		if x.Kind == token.INT {
			return "(" + x.Value + ")%Z", nil
		}
	case *ast.Ident:
		if x.Name == "size" || x.Name == "start" {
			return x.Name, nil
		}
		if x.Name == "end" { // `end` is a keyword of Coq
			return "stop", nil
		}
	case *ast.SelectorExpr:
		if id, ok := x.X.(*ast.Ident); ok && id.Name == "rc" && x.Sel.Name == "size" {
			return "size", nil
		}
	case *ast.IndexExpr:
		if id, ok := x.X.(*ast.Ident); ok && (id.Name == "r" || id.Name == "r2") {
			if lit, ok := x.Index.(*ast.BasicLit); ok && (lit.Value == "0" || lit.Value == "1") {
				return id.Name + "_" + lit.Value, nil
			}
		}
	}
	return "", fmt.Errorf("unrecognised operand")
}

func c17Bool(e ast.Expr) (string, error) {
	switch x := e.(type) {
	case *ast.ParenExpr:
		return c17Bool(x.X)
	case *ast.UnaryExpr:
		if x.Op == token.NOT {
			b, err := c17Bool(x.X)
			if err != nil {
				return "", err
			}
			return "(negb " + b + ")", nil
		}
	case *ast.BinaryExpr:
		switch x.Op {
		case token.LAND, token.LOR:
			a, err := c17Bool(x.X)
			if err != nil {
				return "", err
			}
			b, err := c17Bool(x.Y)
			if err != nil {
				return "", err
			}
			if x.Op == token.LAND {
				return "(" + a + " && " + b + ")", nil
			}
			return "(" + a + " || " + b + ")", nil
		case token.LEQ, token.GEQ, token.LSS, token.GTR, token.EQL, token.NEQ:
			a, err := c17Operand(x.X)
			if err != nil {
				return "", err
			}
			b, err := c17Operand(x.Y)
			if err != nil {
				return "", err
			}
			switch x.Op {
			case token.LEQ:
				return "(" + a + " <=? " + b + ")%Z", nil
			case token.GEQ:
				return "(" + b + " <=? " + a + ")%Z", nil
			case token.LSS:
				return "(" + a + " <? " + b + ")%Z", nil
			case token.GTR:
				return "(" + b + " <? " + a + ")%Z", nil
			case token.EQL:
				return "(" + a + " =? " + b + ")%Z", nil
			default:
				return "(negb (" + a + " =? " + b + ")%Z)", nil
			}
		}
	}
	return "", fmt.Errorf("unrecognised boolean expression")
}

func genC17(repo string) (string, string, error) {
	fset, f, err := parseFile(repo, "range-cache/range-cache.go")
	if err != nil {
		return "", "", err
	}
	one := func(name string) (string, error) {
		fd := funcDecl(f, "Range", name)
		if fd == nil || fd.Body == nil || len(fd.Body.List) != 1 {
			return "", fmt.Errorf("(Range).%s: not a single statement", name)
		}
		r, ok := fd.Body.List[0].(*ast.ReturnStmt)
		if !ok || len(r.Results) != 1 {
			return "", fmt.Errorf("(Range).%s: not a single return", name)
		}
		b, err := c17Bool(r.Results[0])
		if err != nil {
			return "", fmt.Errorf("(Range).%s: %v: %s", name, err, c12Text(fset, r.Results[0]))
		}
		return b, nil
	}
	contains, err := one("contains")
	if err != nil {
		return "", "", err
	}
	valid, err := one("isValidFor")
	if err != nil {
		return "", "", err
	}
	// isContainedIn must be the flipped call
	ici := funcDecl(f, "Range", "isContainedIn")
	if ici == nil || len(ici.Body.List) != 1 || c12Text(fset, ici.Body.List[0]) != "return r2.contains(r)" {
		return "", "", fmt.Errorf("(Range).isContainedIn is expected to be `return r2.contains(r)`")
	}
	// the argument check of getRange and setRange: `if <cond> { return ... "invalid range" ... }`
	invalid := func(name string) (string, error) {
		fd := funcDecl(f, "RangeCache", name)
		if fd == nil || fd.Body == nil {
			return "", fmt.Errorf("(*RangeCache).%s not found", name)
		}
		for _, st := range fd.Body.List {
			ifs, ok := st.(*ast.IfStmt)
			if !ok || ifs.Init != nil || ifs.Else != nil || !strings.Contains(c12Text(fset, ifs.Body), "invalid range") {
				continue
			}
			c, err := c17Bool(ifs.Cond)
			if err != nil {
				return "", fmt.Errorf("(*RangeCache).%s: %v: %s", name, err, c12Text(fset, ifs.Cond))
			}
			return c, nil
		}
		return "", fmt.Errorf("(*RangeCache).%s: the \"invalid range\" check was not found", name)
	}
	invGet, err := invalid("getRange")
	if err != nil {
		return "", "", err
	}
	invSet, err := invalid("setRange")
	if err != nil {
		return "", "", err
	}
	var b strings.Builder
	b.WriteString(coqHeader("C17: the range predicates of range-cache/range-cache.go (see gen/c17.go). r = [r_0, r_1), r2 = [r2_0, r2_1)."))
	b.WriteString("From Coq Require Import Bool.\nLocal Open Scope bool_scope.\n")
	b.WriteString("Definition contains_c17 (r_0 r_1 r2_0 r2_1 : Z) : bool := " + contains + ".\n")
	b.WriteString("Definition is_valid_for_c17 (r_0 r_1 size : Z) : bool := " + valid + ".\n")
	b.WriteString("(* the rejected argument ranges of getRange / setRange (end = start + ln, int64) *)\n")
	b.WriteString("Definition invalid_range_get_c17 (start stop size : Z) : bool := " + invGet + ".\n")
	b.WriteString("Definition invalid_range_set_c17 (start stop size : Z) : bool := " + invSet + ".\n")
	return "RangePredsC17.v", b.String(), nil
}
