package main

// C04 translator: constants of the three compact-index packages that the C04 theorems depend on, re-read from
// the repository on every check and written to coq/Generated/ConstsC04.v:
//   targetEntriesPerBucket, mineAttempts (local constant of sealBucket), HashSize, bucketHdrLen, Version, Magic,
//   the legacy fixed header size and value length, the indexmeta limits, and - as facts about the builder's input
//   validation - the largest value size NewBuilderSized accepts and the largest key length Insert accepts
//   (None when the code has no such check).
// Identifiers are resolved against the package's own constant declarations; anything not found is an error.

import (
	"fmt"
	"go/ast"
	"go/parser"
	"go/token"
	"os"
	"path/filepath"
	"sort"
	"strconv"
	"strings"
)

func init() {
	register("c04", genC04)
	register("c04facts", genC04Facts)
}

type c04Pkg struct {
	files  map[string]*ast.File
	consts map[string]ast.Expr
}

func c04Load(repo, dir string) (*c04Pkg, error) {
	ents, err := os.ReadDir(filepath.Join(repo, dir))
	if err != nil {
		return nil, err
	}
	p := &c04Pkg{files: map[string]*ast.File{}, consts: map[string]ast.Expr{}}
	fset := token.NewFileSet()
	for _, e := range ents {
		n := e.Name()
		if !strings.HasSuffix(n, ".go") || strings.HasSuffix(n, "_test.go") {
			continue
		}
		f, err := parser.ParseFile(fset, filepath.Join(repo, dir, n), nil, 0)
		if err != nil {
			return nil, err
		}
		p.files[n] = f
		for _, d := range f.Decls {
			gd, ok := d.(*ast.GenDecl)
			if !ok || gd.Tok != token.CONST {
				continue
			}
			for _, s := range gd.Specs {
				vs := s.(*ast.ValueSpec)
				for i, nm := range vs.Names {
					if i < len(vs.Values) {
						p.consts[nm.Name] = vs.Values[i]
					}
				}
			}
		}
	}
	return p, nil
}

// eval evaluates a constant integer expression; identifiers are looked up in the package constants (plus a
// few universe/stdlib names) and in the local environment.
func (p *c04Pkg) eval(e ast.Expr, local map[string]ast.Expr, depth int) (int64, error) {
	if depth > 20 {
		return 0, fmt.Errorf("constant expression too deep")
	}
	switch x := e.(type) {
	case *ast.BasicLit:
		if x.Kind == token.CHAR {
			r, _, _, err := strconv.UnquoteChar(x.Value[1:len(x.Value)-1], '\'')
			return int64(r), err
		}
		return strconv.ParseInt(strings.ReplaceAll(x.Value, "_", ""), 0, 64)
	case *ast.ParenExpr:
		return p.eval(x.X, local, depth+1)
	case *ast.Ident:
		if v, ok := local[x.Name]; ok {
			return p.eval(v, local, depth+1)
		}
		if v, ok := p.consts[x.Name]; ok {
			return p.eval(v, nil, depth+1)
		}
		return 0, fmt.Errorf("identifier %s is not a known constant", x.Name)
	case *ast.SelectorExpr:
		if id, ok := x.X.(*ast.Ident); ok && id.Name == "math" {
			switch x.Sel.Name {
			case "MaxUint8":
				return 255, nil
			case "MaxUint16":
				return 65535, nil
			case "MaxUint32":
				return 4294967295, nil
			}
		}
		return 0, fmt.Errorf("selector %v not supported", x.Sel.Name)
	case *ast.CallExpr: // conversions such as uint8(1)
		if len(x.Args) == 1 {
			return p.eval(x.Args[0], local, depth+1)
		}
	case *ast.BinaryExpr:
		a, err := p.eval(x.X, local, depth+1)
		if err != nil {
			return 0, err
		}
		b, err := p.eval(x.Y, local, depth+1)
		if err != nil {
			return 0, err
		}
		switch x.Op {
		case token.ADD:
			return a + b, nil
		case token.SUB:
			return a - b, nil
		case token.MUL:
			return a * b, nil
		case token.SHL:
			return a << uint(b), nil
		case token.QUO:
			if b != 0 {
				return a / b, nil
			}
		}
	}
	return 0, fmt.Errorf("not a constant integer expression")
}

func (p *c04Pkg) constant(name string) (int64, error) {
	e, ok := p.consts[name]
	if !ok {
		return 0, fmt.Errorf("constant %s not found", name)
	}
	return p.eval(e, nil, 0)
}

func (p *c04Pkg) fn(recv, name string) *ast.FuncDecl {
	for _, f := range p.files {
		if fd := funcDecl(f, recv, name); fd != nil {
			return fd
		}
	}
	return nil
}

// localConst finds `const name [type] = expr` declared inside a function body.
func (p *c04Pkg) localConst(fd *ast.FuncDecl, name string) (int64, error) {
	var found ast.Expr
	ast.Inspect(fd.Body, func(n ast.Node) bool {
		if gd, ok := n.(*ast.GenDecl); ok && gd.Tok == token.CONST {
			for _, s := range gd.Specs {
				vs := s.(*ast.ValueSpec)
				for i, nm := range vs.Names {
					if nm.Name == name && i < len(vs.Values) {
						found = vs.Values[i]
					}
				}
			}
		}
		return true
	})
	if found == nil {
		return 0, fmt.Errorf("local constant %s not found in %s", name, fd.Name.Name)
	}
	return p.eval(found, nil, 0)
}

// magic reads `var Magic = [8]byte{'a', ...}`.
func (p *c04Pkg) magic() ([]int64, error) {
	for _, f := range p.files {
		for _, d := range f.Decls {
			gd, ok := d.(*ast.GenDecl)
			if !ok || gd.Tok != token.VAR {
				continue
			}
			for _, s := range gd.Specs {
				vs := s.(*ast.ValueSpec)
				for i, nm := range vs.Names {
					if nm.Name != "Magic" || i >= len(vs.Values) {
						continue
					}
					cl, ok := vs.Values[i].(*ast.CompositeLit)
					if !ok {
						return nil, fmt.Errorf("Magic is not a composite literal")
					}
					var out []int64
					for _, el := range cl.Elts {
						v, err := p.eval(el, nil, 0)
						if err != nil {
							return nil, err
						}
						out = append(out, v)
					}
					return out, nil
				}
			}
		}
	}
	return nil, fmt.Errorf("var Magic not found")
}

// upperBound looks, inside the function, for `if <subject> > C { return ...error... }` (also `>=`, reported as
// C-1) where subject is matched by the predicate, and returns the smallest such C. ok=false when none exists.
func (p *c04Pkg) upperBound(fd *ast.FuncDecl, subject func(ast.Expr) bool) (int64, bool) {
	best, ok := int64(0), false
	if fd == nil || fd.Body == nil {
		return 0, false
	}
	ast.Inspect(fd.Body, func(n ast.Node) bool {
		is, isIf := n.(*ast.IfStmt)
		if !isIf {
			return true
		}
		be, isBin := is.Cond.(*ast.BinaryExpr)
		if !isBin || (be.Op != token.GTR && be.Op != token.GEQ) || !subject(be.X) {
			return true
		}
		returns := false
		for _, st := range is.Body.List {
			if _, r := st.(*ast.ReturnStmt); r {
				returns = true
			}
		}
		if !returns {
			return true
		}
		c, err := p.eval(be.Y, nil, 0)
		if err != nil {
			return true
		}
		if be.Op == token.GEQ {
			c--
		}
		if !ok || c < best {
			best, ok = c, true
		}
		return true
	})
	return best, ok
}

func c04IsIdent(name string) func(ast.Expr) bool {
	return func(e ast.Expr) bool {
		if pe, ok := e.(*ast.ParenExpr); ok {
			e = pe.X
		}
		id, ok := e.(*ast.Ident)
		return ok && id.Name == name
	}
}

// len(<name>) possibly wrapped in a conversion
func c04IsLenOf(name string) func(ast.Expr) bool {
	var rec func(e ast.Expr) bool
	rec = func(e ast.Expr) bool {
		switch x := e.(type) {
		case *ast.ParenExpr:
			return rec(x.X)
		case *ast.CallExpr:
			if id, ok := x.Fun.(*ast.Ident); ok && len(x.Args) == 1 {
				if id.Name == "len" {
					a, ok := x.Args[0].(*ast.Ident)
					return ok && a.Name == name
				}
				return rec(x.Args[0]) // conversion
			}
		}
		return false
	}
	return rec
}

func c04Opt(v int64, ok bool) string {
	if !ok {
		return "None"
	}
	return fmt.Sprintf("(Some %d%%N)", v)
}

func c04Bytes(b []int64) string {
	s := make([]string, len(b))
	for i, x := range b {
		s[i] = strconv.FormatInt(x, 10)
	}
	return "[" + strings.Join(s, "; ") + "]%N"
}

func genC04(repo string) (string, string, error) {
	var sb strings.Builder
	sb.WriteString(coqHeader("C04: constants and input-validation facts of compactindexsized, deprecated/compactindex, deprecated/compactindex36, indexmeta."))
	type pk struct{ prefix, dir string }
	for _, q := range []pk{{"sized", "compactindexsized"}, {"legacy8", "deprecated/compactindex"}, {"legacy36", "deprecated/compactindex36"}} {
		p, err := c04Load(repo, q.dir)
		if err != nil {
			return "", "", err
		}
		names := []string{"targetEntriesPerBucket", "bucketHdrLen", "Version"}
		sort.Strings(names)
		for _, n := range names {
			v, err := p.constant(n)
			if err != nil {
				return "", "", fmt.Errorf("%s: %v", q.dir, err)
			}
			fmt.Fprintf(&sb, "Definition %s_%s : N := %d%%N.\n", q.prefix, n, v)
		}
		sealBucket := p.fn("Builder", "sealBucket")
		if sealBucket == nil {
			return "", "", fmt.Errorf("%s: Builder.sealBucket not found", q.dir)
		}
		att, err := p.localConst(sealBucket, "mineAttempts")
		if err != nil {
			return "", "", fmt.Errorf("%s: %v", q.dir, err)
		}
		fmt.Fprintf(&sb, "Definition %s_mineAttempts : N := %d%%N.\n", q.prefix, att)
		mg, err := p.magic()
		if err != nil {
			return "", "", fmt.Errorf("%s: %v", q.dir, err)
		}
		fmt.Fprintf(&sb, "Definition %s_Magic : list N := %s.\n", q.prefix, c04Bytes(mg))
		if q.prefix == "sized" {
			hs, err := p.constant("HashSize")
			if err != nil {
				return "", "", fmt.Errorf("%s: %v", q.dir, err)
			}
			fmt.Fprintf(&sb, "Definition sized_HashSize : N := %d%%N.\n", hs)
		} else {
			hsz, err := p.constant("headerSize")
			if err != nil {
				return "", "", fmt.Errorf("%s: %v", q.dir, err)
			}
			fmt.Fprintf(&sb, "Definition %s_headerSize : N := %d%%N.\n", q.prefix, hsz)
		}
		if q.prefix == "legacy36" {
			vl := p.fn("", "valueLength")
			if vl == nil || vl.Body == nil || len(vl.Body.List) != 1 {
				return "", "", fmt.Errorf("compactindex36.valueLength not found")
			}
			rs, ok := vl.Body.List[0].(*ast.ReturnStmt)
			if !ok || len(rs.Results) != 1 {
				return "", "", fmt.Errorf("compactindex36.valueLength: unexpected body")
			}
			v, err := p.eval(rs.Results[0], nil, 0)
			if err != nil {
				return "", "", err
			}
			fmt.Fprintf(&sb, "Definition legacy36_valueLength : N := %d%%N.\n", v)
		}
	}
	p, err := c04Load(repo, "indexmeta")
	if err != nil {
		return "", "", err
	}
	for _, n := range []string{"MaxNumKVs", "MaxKeySize", "MaxValueSize"} {
		v, err := p.constant(n)
		if err != nil {
			return "", "", fmt.Errorf("indexmeta: %v", err)
		}
		fmt.Fprintf(&sb, "Definition indexmeta_%s : N := %d%%N.\n", n, v)
	}
	return "ConstsC04.v", sb.String(), nil
}

// genC04Facts: facts about the builders' input validation, kept in a file of their own (FactsC04.v) so that
// applying or reverting the repair does not invalidate the compiled proofs, which do not depend on them:
// the largest value size NewBuilderSized accepts and the largest key length Insert accepts (None = no check).
func genC04Facts(repo string) (string, string, error) {
	var sb strings.Builder
	sb.WriteString(coqHeader("C04: input-validation facts of the compact-index builders (information; the theorems are about the repaired builder)."))
	for _, q := range []struct{ prefix, dir string }{{"sized", "compactindexsized"}, {"legacy8", "deprecated/compactindex"}, {"legacy36", "deprecated/compactindex36"}} {
		p, err := c04Load(repo, q.dir)
		if err != nil {
			return "", "", err
		}
		ins := p.fn("Builder", "Insert")
		if ins == nil {
			return "", "", fmt.Errorf("%s: Builder.Insert not found", q.dir)
		}
		kl, ok := p.upperBound(ins, c04IsLenOf("key"))
		if !ok {
			kl, ok = p.upperBound(p.fn("tempBucket", "writeTuple"), c04IsLenOf("key"))
		}
		fmt.Fprintf(&sb, "Definition %s_insert_max_key_length : option N := %s.\n", q.prefix, c04Opt(kl, ok))
		if q.prefix == "sized" {
			nb := p.fn("", "NewBuilderSized")
			if nb == nil {
				return "", "", fmt.Errorf("NewBuilderSized not found")
			}
			mv, ok := p.upperBound(nb, c04IsIdent("valueSizeBytes"))
			fmt.Fprintf(&sb, "Definition sized_builder_max_value_size : option N := %s.\n", c04Opt(mv, ok))
		}
	}
	sb.WriteString("(* true when the code has both range checks of fixes/C04-*.diff *)\n")
	sb.WriteString("Definition builders_have_c04_repairs : bool :=\n  match sized_builder_max_value_size, sized_insert_max_key_length, legacy8_insert_max_key_length, legacy36_insert_max_key_length with\n  | Some v, Some a, Some b, Some c => (v <=? 252)%N && (a <=? 65535)%N && (b <=? 65535)%N && (c <=? 65535)%N\n  | _, _, _, _ => false\n  end.\n")
	return "FactsC04.v", sb.String(), nil
}
