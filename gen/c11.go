package main

// C11 translator -> coq/Generated/ConstsC11.v
//   kind_transaction … kind_dataframe   – the `Kind` iota block of iplddecoders/decoders.go (the check after decode);
//   ukind_transaction … ukind_dataframe – the literal each (*T).UnmarshalCBOR / DataFrame.fromCBORArray of
//                                         ipld/ipldbindcode/cbor.go compares x.Kind with (`x.Kind != int(4)`);
//   max_array_elements, max_nested_levels – the limits of the CBOR decoding mode the fast decoders run under:
//       the `MaxArrayElements:` / `MaxNestedLevels:` fields of a cbor.DecOptions literal in cbor.go when every decoder
//       uses that mode (no `cbor.NewDecoder(` call left), otherwise the defaults of the fxamacker/cbor version
//       pinned in go.mod (`defaultMaxArrayElements`, `defaultMaxNestedLevels` of its decode.go in the module cache).
// Properties/C11.v states its theorems with these constants, so a changed kind number or limit re-checks the proofs.

import (
	"fmt"
	"go/ast"
	"go/token"
	"os"
	"os/exec"
	"path/filepath"
	"regexp"
	"strings"
)

func init() { register("c11", genC11) }

var c11Kinds = []string{"Transaction", "Entry", "Block", "Subset", "Epoch", "Rewards", "DataFrame"}

func genC11(repo string) (string, string, error) {
	// ---- the Kind iota block
	_, df, err := parseFile(repo, "iplddecoders/decoders.go")
	if err != nil {
		return "", "", err
	}
	kinds := map[string]int64{}
	for _, d := range df.Decls {
		gd, ok := d.(*ast.GenDecl)
		if !ok || gd.Tok != token.CONST {
			continue
		}
		isKindBlock := false
		for i, s := range gd.Specs {
			vs := s.(*ast.ValueSpec)
			if i == 0 {
				if id, ok := vs.Type.(*ast.Ident); ok && id.Name == "Kind" && len(vs.Values) == 1 {
					if v, ok := vs.Values[0].(*ast.Ident); ok && v.Name == "iota" {
						isKindBlock = true
					}
				}
			}
			if !isKindBlock {
				break
			}
			if i > 0 && (vs.Type != nil || len(vs.Values) != 0) {
				return "", "", fmt.Errorf("iplddecoders/decoders.go: Kind const block is no longer a plain iota block")
			}
			for _, n := range vs.Names {
				kinds[n.Name] = int64(i)
			}
		}
	}
	// ---- the literal each fast decoder compares x.Kind with
	_, cf, err := parseFile(repo, "ipld/ipldbindcode/cbor.go")
	if err != nil {
		return "", "", err
	}
	ukind := func(recv, fn string) (int64, error) {
		fd := funcDecl(cf, recv, fn)
		if fd == nil {
			return 0, fmt.Errorf("ipld/ipldbindcode/cbor.go: (*%s).%s not found", recv, fn)
		}
		var vals []int64
		ast.Inspect(fd, func(n ast.Node) bool {
			be, ok := n.(*ast.BinaryExpr)
			if !ok || be.Op != token.NEQ {
				return true
			}
			sel, ok := be.X.(*ast.SelectorExpr)
			if !ok || sel.Sel.Name != "Kind" {
				return true
			}
			if v, err := evalInt(be.Y); err == nil {
				vals = append(vals, v)
			}
			return true
		})
		if len(vals) != 1 {
			return 0, fmt.Errorf("ipld/ipldbindcode/cbor.go: (*%s).%s: expected exactly one `x.Kind != <const>` check, found %d", recv, fn, len(vals))
		}
		return vals[0], nil
	}
	var sb strings.Builder
	sb.WriteString(coqHeader("C11: node kind numbers (iplddecoders/decoders.go, ipld/ipldbindcode/cbor.go) and the CBOR decoding limits in force."))
	for _, k := range c11Kinds {
		v, ok := kinds["Kind"+k]
		if !ok {
			return "", "", fmt.Errorf("iplddecoders/decoders.go: Kind%s not found in the Kind iota block", k)
		}
		fmt.Fprintf(&sb, "Definition kind_%s : Z := %d%%Z.\n", strings.ToLower(k), v)
	}
	for _, k := range c11Kinds {
		fn := "UnmarshalCBOR"
		if k == "DataFrame" {
			fn = "fromCBORArray"
		}
		v, err := ukind(k, fn)
		if err != nil {
			return "", "", err
		}
		fmt.Fprintf(&sb, "Definition ukind_%s : Z := %d%%Z.\n", strings.ToLower(k), v)
	}
	// ---- decoding limits
	defArr, defNest, err := c11LibraryDefaults(repo)
	if err != nil {
		return "", "", err
	}
	maxArr, maxNest := defArr, defNest
	usesDefaultMode := false
	ast.Inspect(cf, func(n ast.Node) bool {
		call, ok := n.(*ast.CallExpr)
		if !ok {
			return true
		}
		if sel, ok := call.Fun.(*ast.SelectorExpr); ok {
			if id, ok := sel.X.(*ast.Ident); ok && id.Name == "cbor" && sel.Sel.Name == "NewDecoder" {
				usesDefaultMode = true
			}
		}
		return true
	})
	if !usesDefaultMode {
		found := false
		ast.Inspect(cf, func(n ast.Node) bool {
			cl, ok := n.(*ast.CompositeLit)
			if !ok {
				return true
			}
			sel, ok := cl.Type.(*ast.SelectorExpr)
			if !ok || sel.Sel.Name != "DecOptions" {
				return true
			}
			found = true
			for _, e := range cl.Elts {
				kv, ok := e.(*ast.KeyValueExpr)
				if !ok {
					continue
				}
				k, ok := kv.Key.(*ast.Ident)
				if !ok {
					continue
				}
				v, err := evalIntC11(kv.Value)
				if err != nil {
					continue
				}
				if k.Name == "MaxArrayElements" && v != 0 {
					maxArr = v
				}
				if k.Name == "MaxNestedLevels" && v != 0 {
					maxNest = v
				}
			}
			return true
		})
		if !found {
			return "", "", fmt.Errorf("ipld/ipldbindcode/cbor.go: no cbor.NewDecoder call and no cbor.DecOptions literal: cannot tell which decoding limits apply")
		}
	}
	fmt.Fprintf(&sb, "Definition max_array_elements : N := %d%%N.\n", maxArr)
	fmt.Fprintf(&sb, "Definition max_nested_levels : N := %d%%N.\n", maxNest)
	fmt.Fprintf(&sb, "Definition library_default_max_array_elements : N := %d%%N.\n", defArr)
	return "ConstsC11.v", sb.String(), nil
}

// evalIntC11: evalInt plus math.MaxInt32.
func evalIntC11(e ast.Expr) (int64, error) {
	if sel, ok := e.(*ast.SelectorExpr); ok {
		if id, ok := sel.X.(*ast.Ident); ok && id.Name == "math" {
			switch sel.Sel.Name {
			case "MaxInt32":
				return 2147483647, nil
			case "MaxInt16":
				return 32767, nil
			}
		}
	}
	return evalInt(e)
}

// c11LibraryDefaults reads defaultMaxArrayElements / defaultMaxNestedLevels from the decode.go of the
// fxamacker/cbor version required by the repository's go.mod (module cache; the sandbox is offline).
func c11LibraryDefaults(repo string) (int64, int64, error) {
	gm, err := os.ReadFile(filepath.Join(repo, "go.mod"))
	if err != nil {
		return 0, 0, err
	}
	m := regexp.MustCompile(`(?m)^\s*github\.com/fxamacker/cbor/v2\s+(v\S+)`).FindSubmatch(gm)
	if m == nil {
		return 0, 0, fmt.Errorf("go.mod: github.com/fxamacker/cbor/v2 is not required any more")
	}
	ver := string(m[1])
	var roots []string
	if v := os.Getenv("GOMODCACHE"); v != "" {
		roots = append(roots, v)
	}
	if out, err := exec.Command("go", "env", "GOMODCACHE").Output(); err == nil {
		roots = append(roots, strings.TrimSpace(string(out)))
	}
	if v := os.Getenv("GOPATH"); v != "" {
		roots = append(roots, filepath.Join(v, "pkg", "mod"))
	}
	if h, err := os.UserHomeDir(); err == nil {
		roots = append(roots, filepath.Join(h, "go", "pkg", "mod"))
	}
	for _, r := range roots {
		dir := filepath.Join(r, "github.com", "fxamacker", "cbor", "v2@"+ver)
		if _, err := os.Stat(filepath.Join(dir, "decode.go")); err != nil {
			continue
		}
		_, f, err := parseFile(dir, "decode.go")
		if err != nil {
			return 0, 0, err
		}
		a, err := constInt(f, "defaultMaxArrayElements")
		if err != nil {
			return 0, 0, fmt.Errorf("fxamacker/cbor %s decode.go: %v", ver, err)
		}
		n, err := constInt(f, "defaultMaxNestedLevels")
		if err != nil {
			return 0, 0, fmt.Errorf("fxamacker/cbor %s decode.go: %v", ver, err)
		}
		return a, n, nil
	}
	return 0, 0, fmt.Errorf("fxamacker/cbor %s not found in the module cache (%v)", ver, roots)
}
