package main

// C14 translator: which checksums ipld/ipldbindcode/methods.go uses, re-read on every check and written to
// coq/Generated/ConstsC14.v:
//   go_crc64_poly   the polynomial constant handed to crc64.MakeTable in checksumCrc64 (crc64.ISO / crc64.ECMA)
//   go_fnv_variant  the hash/fnv constructor called in checksumFnv (New64a is FNV-1a, 64 bit)
//   go_verify_order the checksum functions VerifyHash calls, in order
// C14_Hash.v defines its polynomial from go_crc64_poly and states the variant and the order as Examples, so a change
// of checksum in the repository breaks the build of the C14 theorems.

import (
	"fmt"
	"go/ast"
	"strings"
)

func init() { register("c14", genC14) }

func genC14(repo string) (string, string, error) {
	_, f, err := parseFile(repo, "ipld/ipldbindcode/methods.go")
	if err != nil {
		return "", "", err
	}
	polys := map[string]string{
		"ISO":  "15564440312192434176", // 0xD800000000000000
		"ECMA": "14514072000185962306", // 0xC96C5795D7870F42
	}
	crcFn := funcDecl(f, "", "checksumCrc64")
	if crcFn == nil || crcFn.Body == nil {
		return "", "", fmt.Errorf("checksumCrc64 not found in ipld/ipldbindcode/methods.go")
	}
	polyName := ""
	ast.Inspect(crcFn.Body, func(n ast.Node) bool {
		call, ok := n.(*ast.CallExpr)
		if !ok {
			return true
		}
		sel, ok := call.Fun.(*ast.SelectorExpr)
		if !ok || sel.Sel.Name != "MakeTable" || len(call.Args) != 1 {
			return true
		}
		if pkg, ok := sel.X.(*ast.Ident); !ok || pkg.Name != "crc64" {
			return true
		}
		if arg, ok := call.Args[0].(*ast.SelectorExpr); ok {
			if pkg, ok := arg.X.(*ast.Ident); ok && pkg.Name == "crc64" {
				polyName = arg.Sel.Name
			}
		}
		return true
	})
	poly, ok := polys[polyName]
	if !ok {
		return "", "", fmt.Errorf("checksumCrc64: crc64.MakeTable(crc64.<ISO|ECMA>) not found (got %q)", polyName)
	}
	fnvFn := funcDecl(f, "", "checksumFnv")
	if fnvFn == nil || fnvFn.Body == nil {
		return "", "", fmt.Errorf("checksumFnv not found in ipld/ipldbindcode/methods.go")
	}
	variant := ""
	ast.Inspect(fnvFn.Body, func(n ast.Node) bool {
		call, ok := n.(*ast.CallExpr)
		if !ok {
			return true
		}
		if sel, ok := call.Fun.(*ast.SelectorExpr); ok {
			if pkg, ok := sel.X.(*ast.Ident); ok && pkg.Name == "fnv" && strings.HasPrefix(sel.Sel.Name, "New") {
				variant = sel.Sel.Name
			}
		}
		return true
	})
	if variant == "" {
		return "", "", fmt.Errorf("checksumFnv: no hash/fnv constructor call found")
	}
	vf := funcDecl(f, "", "VerifyHash")
	if vf == nil || vf.Body == nil {
		return "", "", fmt.Errorf("VerifyHash not found in ipld/ipldbindcode/methods.go")
	}
	var order []string
	ast.Inspect(vf.Body, func(n ast.Node) bool {
		if call, ok := n.(*ast.CallExpr); ok {
			if id, ok := call.Fun.(*ast.Ident); ok && strings.HasPrefix(id.Name, "checksum") {
				order = append(order, `"`+id.Name+`"%string`)
			}
		}
		return true
	})
	if len(order) == 0 {
		return "", "", fmt.Errorf("VerifyHash: no checksum call found")
	}
	var sb strings.Builder
	sb.WriteString(coqHeader("C14: the checksums used by ipld/ipldbindcode/methods.go (checksumCrc64, checksumFnv, VerifyHash)."))
	sb.WriteString("Local Open Scope N_scope.\n")
	fmt.Fprintf(&sb, "(* crc64.%s *)\nDefinition go_crc64_poly : N := %s.\n", polyName, poly)
	fmt.Fprintf(&sb, "Definition go_fnv_variant : string := \"%s\"%%string.\n", variant)
	fmt.Fprintf(&sb, "Definition go_verify_order : list string := [%s].\n", strings.Join(order, "; "))
	return "ConstsC14.v", sb.String(), nil
}
