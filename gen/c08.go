package main

// C08 translator: potential panic sites (see gen/c12.go for the kinds, plus "deref": explicit *p) of the functions
// that run on a request's bytes or message fields before a response exists: the JSON-RPC parameter parsers, the HTTP
// front and dispatch, the REST front, and the gRPC methods. YF.C08_Sites classifies every site; Properties/C08.v does
// not build when the generated list contains an unclassified one.

import (
	"fmt"
	"strings"
)

func init() { register("c08", genC08) }

var c08Files = []string{
	"request-response.go",
	"getSignaturesForAddress.go",
	"multiepoch.go",
	"multiepoch-getBlock.go",
	"multiepoch-getTransaction.go",
	"multiepoch-getBlockTime.go",
	"multiepoch-getSignaturesForAddress.go",
	"multiepoch-getSlot.go",
	"multiepoch-getVersion.go",
	"multiepoch-getGenesisHash.go",
	"multiepoch-getFirstAvailableBlock.go",
	"grpc-server.go",
	"api.go",
	"adapters.go",
}

// not request handling: process start-up and the epoch-set mutators (C09)
var c08SkipFuncs = map[string][]string{
	"multiepoch.go": {"init", "(*MultiEpoch).AddEpoch", "(*MultiEpoch).RemoveEpoch", "(*MultiEpoch).ReplaceEpoch", "(*MultiEpoch).ReplaceOrAddEpoch"},
}

func genC08(repo string) (string, string, error) {
	keys, err := collectSites(repo, c08Files, c08SkipFuncs, nil, true, true)
	if err != nil {
		return "", "", err
	}
	if len(keys) == 0 {
		return "", "", fmt.Errorf("no sites found (anchored files changed?)")
	}
	var b strings.Builder
	b.WriteString(coqHeader("C08: potential panic sites of the request-handling functions (see gen/c08.go)."))
	b.WriteString("Local Open Scope string_scope.\n")
	b.WriteString("Definition panic_sites_c08 : list string := [\n")
	for i, k := range keys {
		k = strings.ReplaceAll(k, "\"", "\"\"")
		b.WriteString("  \"" + k + "\"")
		if i+1 < len(keys) {
			b.WriteString(";")
		}
		b.WriteString("\n")
	}
	b.WriteString("].\n")
	return "PanicSitesC08.v", b.String(), nil
}
