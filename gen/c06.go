package main

// C06: constants of the GSFA writer (gsfa/gsfa-write.go) that the C06 theorems are instantiated at.

import (
	"fmt"
	"go/ast"
	"go/token"
	"strings"
)

func init() {
	register("c06", func(repo string) (string, string, error) {
		_, f, err := parseFile(repo, "gsfa/gsfa-write.go")
		if err != nil {
			return "", "", err
		}
		batch, err := constInt(f, "itemsPerBatch")
		if err != nil {
			return "", "", err
		}
		isCall := func(e ast.Expr, name string) (*ast.CallExpr, bool) {
			c, ok := e.(*ast.CallExpr)
			if !ok {
				return nil, false
			}
			switch fn := c.Fun.(type) {
			case *ast.Ident:
				return c, fn.Name == name
			case *ast.SelectorExpr:
				return c, fn.Sel.Name == name
			}
			return c, false
		}
		// NewGsfaWriter: make(chan ..., N) and newRollingRankOfTopPerformers(N)
		var chanCap, rankSize int64 = -1, -1
		nw := funcDecl(f, "", "NewGsfaWriter")
		if nw == nil {
			return "", "", fmt.Errorf("NewGsfaWriter not found")
		}
		ast.Inspect(nw, func(n ast.Node) bool {
			if e, ok := n.(ast.Expr); ok {
				if c, ok := isCall(e, "make"); ok && len(c.Args) == 2 {
					if _, isChan := c.Args[0].(*ast.ChanType); isChan {
						if v, err := evalInt(c.Args[1]); err == nil {
							chanCap = v
						}
					}
				}
				if c, ok := isCall(e, "newRollingRankOfTopPerformers"); ok && len(c.Args) == 1 {
					if v, err := evalInt(c.Args[0]); err == nil {
						rankSize = v
					}
				}
			}
			return true
		})
		// fullBufferWriter: howManyBuffersToFlushConcurrently := N
		var parked int64 = -1
		bw := funcDecl(f, "GsfaWriter", "fullBufferWriter")
		if bw == nil {
			return "", "", fmt.Errorf("GsfaWriter.fullBufferWriter not found")
		}
		ast.Inspect(bw, func(n ast.Node) bool {
			if as, ok := n.(*ast.AssignStmt); ok && as.Tok == token.DEFINE && len(as.Lhs) == 1 && len(as.Rhs) == 1 {
				if id, ok := as.Lhs[0].(*ast.Ident); ok && id.Name == "howManyBuffersToFlushConcurrently" {
					if v, err := evalInt(as.Rhs[0]); err == nil {
						parked = v
					}
				}
			}
			return true
		})
		// Push: slot%N == 0 && a.accum.Len() > N ... len(values) < N
		var every, minKeys, small int64 = -1, -1, -1
		ps := funcDecl(f, "GsfaWriter", "Push")
		if ps == nil {
			return "", "", fmt.Errorf("GsfaWriter.Push not found")
		}
		ast.Inspect(ps, func(n ast.Node) bool {
			b, ok := n.(*ast.BinaryExpr)
			if !ok {
				return true
			}
			switch b.Op {
			case token.REM:
				if id, ok := b.X.(*ast.Ident); ok && id.Name == "slot" && every < 0 {
					if v, err := evalInt(b.Y); err == nil {
						every = v
					}
				}
			case token.GTR:
				if _, ok := isCall(b.X, "Len"); ok && minKeys < 0 {
					if v, err := evalInt(b.Y); err == nil {
						minKeys = v
					}
				}
			case token.LSS:
				if c, ok := isCall(b.X, "len"); ok && small < 0 && len(c.Args) == 1 {
					if id, ok := c.Args[0].(*ast.Ident); ok && id.Name == "values" {
						if v, err := evalInt(b.Y); err == nil {
							small = v
						}
					}
				}
			}
			return true
		})
		vals := []struct {
			name, what string
			v          int64
		}{
			{"items_per_batch", "const itemsPerBatch", batch},
			{"chan_capacity", "make(chan ..., N) in NewGsfaWriter", chanCap},
			{"parked_capacity", "howManyBuffersToFlushConcurrently := N in fullBufferWriter", parked},
			{"flush_every_slots", "slot%N == 0 in Push", every},
			{"flush_min_keys", "a.accum.Len() > N in Push", minKeys},
			{"flush_small", "len(values) < N in Push", small},
			{"rank_list_size", "newRollingRankOfTopPerformers(N) in NewGsfaWriter", rankSize},
		}
		var sb strings.Builder
		sb.WriteString(coqHeader("C06: constants of gsfa/gsfa-write.go"))
		for _, x := range vals {
			if x.v < 0 {
				return "", "", fmt.Errorf("gsfa/gsfa-write.go: %s not found", x.what)
			}
			fmt.Fprintf(&sb, "(* %s *)\nDefinition %s : N := %d%%N.\n", x.what, x.name, x.v)
		}
		return "ConstsC06.v", sb.String(), nil
	})
}
