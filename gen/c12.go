package main

// C12 translator ("sitegen"): lists, for the files the property anchors, every expression of the READER-side
// functions that can make the Go runtime panic or allocate an amount of memory chosen by the input:
//
//	index      a[i]                       (index out of range; also listed for maps — over-approximation)
//	slice      a[i:j]                     (slice bounds out of range; a[:] is not listed: it cannot fail)
//	arrayconv  (*[N]T)(s), [N]T(s)        (slice shorter than the array)
//	assert     x.(T) outside `v, ok :=` and outside a type switch
//	make       make(T, n[, m]) with a non-constant size
//	div        x / y, x % y with a non-constant divisor (integer divide by zero)
//	panic      panic(...), Must*(...) calls
//
// into coq/Generated/PanicSitesC12.v. A site is identified by file | enclosing function | kind | the text of the
// expression as go/printer prints it | number of occurrences of that text in that function — never by position, so
// reformatting or moving code changes nothing, while a new expression (or one more occurrence) is a new site.
// YF.C12_Sites maps every site to `guarded` (with the lemma that covers it), `trusted` (with the reason) or
// `writer_side`; Properties/C12.v does not build when the generated list contains a site without classification.
//
// Functions are skipped only when listed in c12WriterFuncs (code that runs on program data while WRITING files:
// builders, marshalers) — a function that is not listed there is a reader until proven otherwise.

import (
	"bytes"
	"fmt"
	"go/ast"
	"go/printer"
	"go/token"
	"sort"
	"strings"
)

func init() { register("c12", genC12) }

var c12Files = []string{
	"carreader/reader.go",
	"compactindexsized/compactindex.go",
	"compactindexsized/query.go",
	"deprecated/compactindex/compactindex.go",
	"deprecated/compactindex/query.go",
	"deprecated/compactindex36/compactindex.go",
	"deprecated/compactindex36/query.go",
	"indexmeta/indexmeta.go",
	"indexes/metadata.go",
	"indexes/uints.go",
	"indexes/offset-and-size.go",
	"bucketteer/read.go",
	"deprecated/bucketteer/read.go",
	"blocktimeindex/writer.go",
	"gsfa/linkedlog/linked-log.go",
	"gsfa/linkedlog/offset-size-slot.go",
	"gsfa/manifest/manifest.go",
	"solana-tx-meta-parsers/parsers.go",
	"epoch.go",
	"storage.go",
	"readers.go",
	"accum/block.go",
	"accum/tx.go",
}

// writer-side functions (file -> function names as printed: "Name" or "(*T).Name")
var c12WriterFuncs = map[string][]string{
	"compactindexsized/compactindex.go":         {"(*Header).Bytes", "(*BucketHeader).Store", "(*BucketDescriptor).marshalEntry", "putUintLe"},
	"compactindexsized/query.go":                {"(*BucketHeader).writeTo"},
	"deprecated/compactindex/compactindex.go":   {"(*Header).Store", "(*BucketHeader).Store", "(*BucketDescriptor).marshalEntry", "putUintLe"},
	"deprecated/compactindex/query.go":          {"(*BucketHeader).writeTo"},
	"deprecated/compactindex36/compactindex.go": {"(*Header).Store", "(*BucketHeader).Store", "(*BucketDescriptor).marshalEntry", "putUintLe"},
	"deprecated/compactindex36/query.go":        {"(*BucketHeader).writeTo"},
	"indexmeta/indexmeta.go":                    {"(*Meta).Bytes", "(Meta).MarshalBinary", "(*Meta).Add", "(*Meta).Replace", "encodeUint64"},
	"indexes/metadata.go":                       {"setDefaultMetadata"},
	"indexes/uints.go":                          {"Uint24tob", "Uint40tob", "Uint48tob", "Uint64tob"},
	"indexes/offset-and-size.go":                {"(OffsetAndSize).Bytes"},
	"blocktimeindex/writer.go":                  {"NewIndexer", "NewForEpoch", "(*Index).Set", "(*Index).marshalBinary", "blocktimeToBytes"},
	"gsfa/linkedlog/linked-log.go":              {"NewLinkedLog", "(*LinkedLog).write", "(*LinkedLog).Put", "createIndexesPayload", "encodeUvarint"},
	"gsfa/linkedlog/offset-size-slot.go":        {"(OffsetAndSizeAndSlot).Bytes"},
	"gsfa/manifest/manifest.go":                 {"writeHeader", "(*Manifest).Put", "(*Manifest).write", "uint64ToBytes"},
}

type c12Site struct {
	file, fn, kind, text string
}

func c12FuncName(fd *ast.FuncDecl) string {
	if fd.Recv == nil || len(fd.Recv.List) == 0 {
		return fd.Name.Name
	}
	t := fd.Recv.List[0].Type
	star := ""
	if st, ok := t.(*ast.StarExpr); ok {
		star, t = "*", st.X
	}
	if ix, ok := t.(*ast.IndexExpr); ok {
		t = ix.X
	}
	name := "?"
	if id, ok := t.(*ast.Ident); ok {
		name = id.Name
	}
	return "(" + star + name + ")." + fd.Name.Name
}

func c12Text(fset *token.FileSet, n ast.Node) string {
	var b bytes.Buffer
	_ = printer.Fprint(&b, fset, n)
	return strings.Join(strings.Fields(b.String()), " ")
}

func c12IsConst(e ast.Expr) bool {
	switch x := e.(type) {
	case *ast.BasicLit:
		return true
	case *ast.ParenExpr:
		return c12IsConst(x.X)
	case *ast.BinaryExpr:
		return c12IsConst(x.X) && c12IsConst(x.Y)
	case *ast.CallExpr: // len(constantArrayOrString) and conversions of constants
		if id, ok := x.Fun.(*ast.Ident); ok && len(x.Args) == 1 {
			switch id.Name {
			case "uint8", "uint16", "uint32", "uint64", "int", "int64", "uint":
				return c12IsConst(x.Args[0])
			}
		}
	}
	return false
}

// collectSites lists the potential panic sites of the given files (functions named in skipFuncs are left out).
// withDeref adds kind "deref": explicit pointer dereferences *p in expression position (nil pointer dereference).
func collectSites(repo string, files []string, skipFuncs map[string][]string, onlyFuncs map[string][]string, withDeref bool, skipStringKeys bool) ([]string, error) {
	var sites []c12Site
	for _, rel := range files {
		fset, f, err := parseFile(repo, rel)
		if err != nil {
			return nil, fmt.Errorf("%s: %v", rel, err)
		}
		skip := map[string]bool{}
		for _, n := range skipFuncs[rel] {
			skip[n] = true
		}
		var only map[string]bool
		if l, ok := onlyFuncs[rel]; ok {
			only = map[string]bool{}
			for _, n := range l {
				only[n] = true
			}
		}
		// package-level constants of the file: an expression made of them is constant
		consts := map[string]bool{}
		for _, d := range f.Decls {
			if gd, ok := d.(*ast.GenDecl); ok && gd.Tok == token.CONST {
				for _, s := range gd.Specs {
					for _, n := range s.(*ast.ValueSpec).Names {
						consts[n.Name] = true
					}
				}
			}
		}
		var isConst func(e ast.Expr) bool
		isConst = func(e ast.Expr) bool {
			if c12IsConst(e) {
				return true
			}
			switch x := e.(type) {
			case *ast.Ident:
				return consts[x.Name]
			case *ast.ParenExpr:
				return isConst(x.X)
			case *ast.BinaryExpr:
				return isConst(x.X) && isConst(x.Y)
			case *ast.SelectorExpr: // binary.MaxVarintLen64, math.MaxUint16 ...: exported constants of the standard library
				if id, ok := x.X.(*ast.Ident); ok && (id.Name == "binary" || id.Name == "math") {
					return true
				}
			case *ast.CallExpr:
				if id, ok := x.Fun.(*ast.Ident); ok && id.Name == "len" && len(x.Args) == 1 {
					if a, ok := x.Args[0].(*ast.Ident); ok && (a.Name == "magic" || a.Name == "_MAGIC" || a.Name == "_Magic" || a.Name == "Magic") {
						return true
					}
					if s, ok := x.Args[0].(*ast.SliceExpr); ok {
						if a, ok := s.X.(*ast.Ident); ok && (a.Name == "_Magic" || a.Name == "Magic" || a.Name == "_MAGIC") {
							return true
						}
					}
				}
			}
			return false
		}
		for _, d := range f.Decls {
			fd, ok := d.(*ast.FuncDecl)
			if !ok || fd.Body == nil {
				continue
			}
			fn := c12FuncName(fd)
			if skip[fn] || (only != nil && !only[fn]) {
				continue
			}
			typePos := map[*ast.StarExpr]bool{}
			if withDeref {
				markTypeStars(fd, typePos)
			}
			okAssert := map[*ast.TypeAssertExpr]bool{}
			add := func(kind string, n ast.Node) {
				sites = append(sites, c12Site{rel, fn, kind, c12Text(fset, n)})
			}
			ast.Inspect(fd.Body, func(n ast.Node) bool {
				switch x := n.(type) {
				case *ast.AssignStmt:
					if len(x.Lhs) == 2 && len(x.Rhs) == 1 {
						if ta, ok := x.Rhs[0].(*ast.TypeAssertExpr); ok {
							okAssert[ta] = true
						}
					}
				case *ast.ValueSpec:
					if len(x.Names) == 2 && len(x.Values) == 1 {
						if ta, ok := x.Values[0].(*ast.TypeAssertExpr); ok {
							okAssert[ta] = true
						}
					}
				case *ast.TypeSwitchStmt:
					ast.Inspect(x.Assign, func(m ast.Node) bool {
						if ta, ok := m.(*ast.TypeAssertExpr); ok {
							okAssert[ta] = true
						}
						return true
					})
				case *ast.TypeAssertExpr:
					if !okAssert[x] && x.Type != nil {
						add("assert", x)
					}
				case *ast.StarExpr:
					if withDeref && !typePos[x] {
						add("deref", x)
					}
				case *ast.IndexExpr:
					if lit, ok := x.Index.(*ast.BasicLit); ok && skipStringKeys && lit.Kind == token.STRING {
						break // m["key"]: only a map can be indexed by a string constant
					}
					add("index", x)
				case *ast.SliceExpr:
					if x.Low == nil && x.High == nil && x.Max == nil {
						break // a[:] cannot fail
					}
					add("slice", x)
				case *ast.BinaryExpr:
					if (x.Op == token.QUO || x.Op == token.REM) && !isConst(x.Y) {
						add("div", x)
					}
				case *ast.CallExpr:
					switch fun := x.Fun.(type) {
					case *ast.Ident:
						if fun.Name == "panic" {
							add("panic", x)
						} else if strings.HasPrefix(fun.Name, "Must") {
							add("panic", x)
						} else if fun.Name == "make" && len(x.Args) >= 2 {
							nonconst := false
							for _, a := range x.Args[1:] {
								if !isConst(a) {
									nonconst = true
								}
							}
							if nonconst {
								add("make", x)
							}
						}
					case *ast.SelectorExpr:
						if strings.HasPrefix(fun.Sel.Name, "Must") {
							add("panic", x)
						}
					case *ast.ParenExpr:
						if st, ok := fun.X.(*ast.StarExpr); ok {
							if _, ok := st.X.(*ast.ArrayType); ok {
								add("arrayconv", x)
							}
						}
					case *ast.ArrayType:
						if fun.Len != nil {
							add("arrayconv", x)
						}
					}
				}
				return true
			})
		}
	}
	// merge identical (file, func, kind, text) into one entry with its occurrence count
	count := map[c12Site]int{}
	for _, s := range sites {
		count[s]++
	}
	keys := make([]string, 0, len(count))
	for s, n := range count {
		keys = append(keys, fmt.Sprintf("%s|%s|%s|%s|%d", s.file, s.fn, s.kind, s.text, n))
	}
	sort.Strings(keys)
	return keys, nil
}

// markTypeStars records the *T nodes that are types, not dereferences.
func markTypeStars(root ast.Node, out map[*ast.StarExpr]bool) {
	var markType func(e ast.Expr)
	markType = func(e ast.Expr) {
		ast.Inspect(e, func(n ast.Node) bool {
			if st, ok := n.(*ast.StarExpr); ok {
				out[st] = true
			}
			return true
		})
	}
	ast.Inspect(root, func(n ast.Node) bool {
		switch x := n.(type) {
		case *ast.Field:
			if x.Type != nil {
				markType(x.Type)
			}
		case *ast.ValueSpec:
			if x.Type != nil {
				markType(x.Type)
			}
		case *ast.TypeSpec:
			markType(x.Type)
		case *ast.CompositeLit:
			if x.Type != nil {
				markType(x.Type)
			}
		case *ast.ArrayType:
			markType(x.Elt)
		case *ast.MapType:
			markType(x.Key)
			markType(x.Value)
		case *ast.ChanType:
			markType(x.Value)
		case *ast.TypeAssertExpr:
			if x.Type != nil {
				markType(x.Type)
			}
		case *ast.CaseClause: // type switch cases
			for _, e := range x.List {
				if st, ok := e.(*ast.StarExpr); ok {
					if _, isSel := st.X.(*ast.SelectorExpr); isSel {
						out[st] = true
					} else if id, isId := st.X.(*ast.Ident); isId && ast.IsExported(id.Name) {
						out[st] = true
					}
				}
			}
		case *ast.CallExpr:
			if p, ok := x.Fun.(*ast.ParenExpr); ok { // conversion (*T)(x)
				markType(p.X)
			}
			if id, ok := x.Fun.(*ast.Ident); ok && (id.Name == "new" || id.Name == "make") && len(x.Args) > 0 {
				markType(x.Args[0])
			}
			if ix, ok := x.Fun.(*ast.IndexExpr); ok { // generic instantiation f[*T](...)
				markType(ix.Index)
			}
		case *ast.IndexExpr: // generic type instantiation T[*U]
			if st, ok := x.Index.(*ast.StarExpr); ok {
				if id, isId := st.X.(*ast.Ident); isId && ast.IsExported(id.Name) {
					out[st] = true
				}
				if _, isSel := st.X.(*ast.SelectorExpr); isSel {
					out[st] = true
				}
			}
		}
		return true
	})
}

func genC12(repo string) (string, string, error) {
	keys, err := collectSites(repo, c12Files, c12WriterFuncs, nil, false, false)
	if err != nil {
		return "", "", err
	}
	if len(keys) == 0 {
		return "", "", fmt.Errorf("no sites found (anchored files changed?)")
	}
	var b strings.Builder
	b.WriteString(coqHeader("C12: potential panic / input-sized allocation sites of the reader-side functions of the anchored files (see gen/c12.go)."))
	b.WriteString("Local Open Scope string_scope.\n")
	b.WriteString("Definition panic_sites_c12 : list string := [\n")
	for i, k := range keys {
		k = strings.ReplaceAll(k, "\"", "\"\"")
		b.WriteString("  \"" + k + "\"")
		if i+1 < len(keys) {
			b.WriteString(";")
		}
		b.WriteString("\n")
	}
	b.WriteString("].\n")
	return "PanicSitesC12.v", b.String(), nil
}
