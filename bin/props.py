"""Per-property configuration for bin/check and bin/mkmanifest: one file per property in bin/propsd/Cxx.py
defining PROP = dict(...). A property is claimed in MANIFEST.json iff its file exists and sets claimed (default True)."""
import os, sys, importlib.util, glob

_D = os.path.join(os.path.dirname(os.path.abspath(__file__)), "propsd")
sys.path.insert(0, _D)
PROPS = {}
NOT_APPLICABLE = {}
for _p in sorted(glob.glob(os.path.join(_D, "C*.py"))):
    _id = os.path.basename(_p)[:-3]
    _spec = importlib.util.spec_from_file_location("propsd_" + _id, _p)
    _m = importlib.util.module_from_spec(_spec)
    _spec.loader.exec_module(_m)
    if getattr(_m, "PROP", None) is not None and _m.PROP.get("claimed", True):
        PROPS[_id] = _m.PROP
    elif hasattr(_m, "NOT_APPLICABLE"):
        NOT_APPLICABLE[_id] = _m.NOT_APPLICABLE
