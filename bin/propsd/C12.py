from common import COMMON_TRUSTED

_H = {"zzverif/c12h/c12h.go": "harness/c12h/c12h.go"}


def _h(name, pkg, dst, src, run="^TestVerif_C12$", extra=None, timeout=900, timeout_thorough=2400):
    files = dict(_H)
    files[dst] = src
    if extra:
        files.update(extra)
    return dict(name=name, pkg=pkg, run=run, files=files, timeout=timeout, timeout_thorough=timeout_thorough)


PROP = dict(
    title="Parsers of external data return errors, never crash, on arbitrary bytes",
    coq_target="Properties/C12.vo",
    harness=[
        dict(name="decoders", pkg="./iplddecoders", run="^TestVerif_C12dec$",
             files={"iplddecoders/zz_verif_c11_test.go": "harness/iplddecoders/c11_test.go",
                    "iplddecoders/zz_verif_c12dec_test.go": "harness/iplddecoders/c12dec_test.go"},
             timeout=900, timeout_thorough=2400),
        _h("ci-sized", "./compactindexsized", "compactindexsized/zz_verif_c12_test.go", "harness/compactindexsized/c12_test.go"),
        _h("indexes", "./indexes", "indexes/zz_verif_c12_test.go", "harness/indexes/c12_test.go"),
        _h("indexmeta", "./indexmeta", "indexmeta/zz_verif_c12_test.go", "harness/indexmeta/c12_test.go"),
        _h("bucketteer", "./bucketteer", "bucketteer/zz_verif_c12_test.go", "harness/bucketteer/c12_test.go"),
        _h("blocktime", "./blocktimeindex", "blocktimeindex/zz_verif_c12_test.go", "harness/blocktimeindex/c12_test.go"),
        _h("carreader", "./carreader", "carreader/zz_verif_c12_test.go", "harness/carreader/c12_test.go"),
        _h("linkedlog", "./gsfa/linkedlog", "gsfa/linkedlog/zz_verif_c12_test.go", "harness/gsfa/linkedlog/c12_test.go"),
        _h("manifest", "./gsfa/manifest", "gsfa/manifest/zz_verif_c12_test.go", "harness/gsfa/manifest/c12_test.go"),
        _h("ci-legacy8", "./deprecated/compactindex", "deprecated/compactindex/zz_verif_c12_test.go", "harness/deprecated/compactindex/c12_test.go"),
        _h("ci-legacy36", "./deprecated/compactindex36", "deprecated/compactindex36/zz_verif_c12_test.go", "harness/deprecated/compactindex36/c12_test.go"),
        _h("bucketteer-legacy", "./deprecated/bucketteer", "deprecated/bucketteer/zz_verif_c12_test.go", "harness/deprecated/bucketteer/c12_test.go"),
        _h("txmeta", "./solana-tx-meta-parsers", "solana-tx-meta-parsers/zz_verif_c12_test.go", "harness/solana-tx-meta-parsers/c12_test.go"),
        _h("accum", "./accum", "accum/zz_verif_c12_test.go", "harness/accum/c12_test.go"),
        _h("main", ".", "zz_verif_c12main_test.go", "harness/main/c12main_test.go", run="^TestVerif_C12main",
           extra={"zz_verif_fixture_test.go": "harness/main/fixture_test.go"}, timeout=1200, timeout_thorough=2400),
    ],
    technique="TODO", level_text="TODO", level_note="TODO", design_ref="5 (C12)",
    trusted=[] + COMMON_TRUSTED, assumptions=[],
)
