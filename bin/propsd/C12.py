from common import COMMON_TRUSTED

_H = {"zzverif/c12h/c12h.go": "harness/c12h/c12h.go"}


def _h(name, pkg, dst, src, run="^TestVerif_C12$", extra=None, timeout=900, timeout_thorough=2400):
    files = dict(_H)
    files[dst] = src
    if extra:
        files.update(extra)
    return dict(name=name, pkg=pkg, run=run, files=files, timeout=timeout, timeout_thorough=timeout_thorough)


PROP = dict(
    title="Parsers of external data return errors, never crash, on arbitrary bytes",
    coq_target="Properties/C12.vo",
    harness=[
        dict(name="decoders", pkg="./iplddecoders", run="^TestVerif_C12dec$",
             files={"iplddecoders/zz_verif_c11_test.go": "harness/iplddecoders/c11_test.go",
                    "iplddecoders/zz_verif_c12dec_test.go": "harness/iplddecoders/c12dec_test.go"},
             timeout=900, timeout_thorough=2400),
        _h("ci-sized", "./compactindexsized", "compactindexsized/zz_verif_c12_test.go", "harness/compactindexsized/c12_test.go"),
        _h("indexes", "./indexes", "indexes/zz_verif_c12_test.go", "harness/indexes/c12_test.go"),
        _h("indexmeta", "./indexmeta", "indexmeta/zz_verif_c12_test.go", "harness/indexmeta/c12_test.go"),
        _h("bucketteer", "./bucketteer", "bucketteer/zz_verif_c12_test.go", "harness/bucketteer/c12_test.go"),
        _h("blocktime", "./blocktimeindex", "blocktimeindex/zz_verif_c12_test.go", "harness/blocktimeindex/c12_test.go"),
        _h("carreader", "./carreader", "carreader/zz_verif_c12_test.go", "harness/carreader/c12_test.go"),
        _h("linkedlog", "./gsfa/linkedlog", "gsfa/linkedlog/zz_verif_c12_test.go", "harness/gsfa/linkedlog/c12_test.go"),
        dict(name="gsfa-chain", pkg="./gsfa", run="^TestVerif_C12Chain$",
             files={"gsfa/zz_verif_c12chain_test.go": "harness/gsfa/c12chain_test.go"}, timeout=600, timeout_thorough=900),
        _h("manifest", "./gsfa/manifest", "gsfa/manifest/zz_verif_c12_test.go", "harness/gsfa/manifest/c12_test.go"),
        _h("ci-legacy8", "./deprecated/compactindex", "deprecated/compactindex/zz_verif_c12_test.go", "harness/deprecated/compactindex/c12_test.go"),
        _h("ci-legacy36", "./deprecated/compactindex36", "deprecated/compactindex36/zz_verif_c12_test.go", "harness/deprecated/compactindex36/c12_test.go"),
        _h("bucketteer-legacy", "./deprecated/bucketteer", "deprecated/bucketteer/zz_verif_c12_test.go", "harness/deprecated/bucketteer/c12_test.go"),
        _h("txmeta", "./solana-tx-meta-parsers", "solana-tx-meta-parsers/zz_verif_c12_test.go", "harness/solana-tx-meta-parsers/c12_test.go"),
        _h("accum", "./accum", "accum/zz_verif_c12_test.go", "harness/accum/c12_test.go"),
        _h("main", ".", "zz_verif_c12main_test.go", "harness/main/c12main_test.go", run="^TestVerif_C12main",
           extra={"zz_verif_fixture_test.go": "harness/main/fixture_test.go"}, timeout=1200, timeout_thorough=2400),
    ],
    technique="Coq totality proofs over executable models of the parsers with explicit Ok | Err | Panic outcomes, explicit allocation "
              "sizes and a guard flag per bounds check (compact index Open/Load/GetBucket/Lookup, 8-byte metadata values, CAR sections and the "
              "section loop, block-time table, sig-exists header, linked-log records, kind dispatch, GetBlock's transaction loop; fast IPLD "
              "decoders over a CBOR item model) + a go/ast translator that lists every potential crash site of the anchored files, which a Coq "
              "table must classify + structure-aware mutation of VALID files written by the repository's own writers, run through the real "
              "entry points in a child process under ulimit -v with recover(), per-call allocation accounting and a per-input timeout; "
              "outcome classes compared with the models under the guard flags measured with the refutation witnesses; blocktimeindex (*Index).Get itself "
              "translated on every run (GoLite, an out-of-range index IS a panic of the interpreter) and proved to have the model's outcome class",
    level_text="Theorems (Coq, no axioms), for ALL byte strings / files / (offset,size) arguments / hash values: the repaired compactindexsized.Open "
               "and Header.Load never panic and request at most 2*len+64KiB bytes; GetBucket+Lookup never panic and the eytzinger descent ends "
               "by itself; the incremental header read accepts every header the stream really holds; getDefaultMetadata/GetUint64 never panic "
               "on a value of any length; ReadNodeInfoWithData never panics, requests at most 32 MiB (go-car's cap) and the section loop ends "
               "on every finite stream (each section consumes input); blocktimeindex.FromBytes never panics and requests at most 2*len bytes, "
               "Index.Get never panics (model AND the translated Go function: C12_translated_blocktime_Get_never_panics); bucketteer.NewReader requests at most 2*len+1MiB; linkedlog.ReadWithSize never panics and requests at "
               "most min(256 MiB, file length); the data[1] kind dispatch and GetBlock's transaction loop never panic; every fast decoder is "
               "total on every byte string (a panic is possible only at an unguarded assertion site); data-frame collection terminates (C14). "
               "For every guard a refutation theorem with concrete witness bytes shows the code WITHOUT the guard panics or requests an "
               "allocation unrelated to the input (256 MiB for 26 bytes, 8 TiB for 50 bytes, 4 GiB for 12 bytes). Every index/slice/array "
               "conversion/assertion/make/division/panic site that gen/c12.go finds in the reader-side functions of the anchored files is "
               "classified (guarded by a named theorem | cannot fail for a stated local reason | removed by a named repair); an unclassified "
               "site stops the build. Tie: 15 harness parts, about 190 000 mutated inputs in the quick tier (length/count/size/offset fields "
               "set to 0, 1, max and values inconsistent with the file size, truncation at structure boundaries, random edits, junk) through "
               "Open/Lookup/Load, OpenWithReader_* (4 kinds + legacy dispatch), NewReader/Has, FromBytes/FromFile/Get, carreader loops, "
               "ReadWithSize/Read, NewManifest/ReadAll, UnmarshalBinary/getters, the deprecated readers, ParseAnyTransactionStatusMeta, "
               "ObjectAccumulator, parseNodeFromSection & friends, carCountItemsByFirstByte, getBlock/GetBlock over a CAR with an undecodable "
               "object, and the seven Decode<Kind> functions; outcome classes (and decoded header fields / consumed bytes) of about 4 000 "
               "sampled inputs are compared with the models by coqc.",
    level_note="Partial: allocation is bounded by a linear function of the input only where the reader can know the input size; two bounds are "
               "constants inherited from the formats (32 MiB CAR section cap of go-car, 16 MiB = 3-byte size field of index entries). "
               "Third-party and generated decoders (fxamacker/cbor, go-cid, go-car header, klauspost zstd, protobuf, the serde-generated bincode "
               "readers) are not modelled: they are exercised by the mutation harnesses only; the zstd decoder allocating the content size "
               "DECLARED by a frame header is a recorded known finding (known-findings.txt); go-cid's CidFromReader may itself request up to "
               "32 MiB for a declared digest (its own cap), which the CAR budgets include. Thorough tier: 10x the mutation stream and 40 s of "
               "native coverage-guided fuzzing (instrumented binary built with the same overlay, corpus and crashers under .work/C12) for the "
               "compact index, block-time, CAR and metadata parts. Forced hypothesis of the block-time theorem: the input is an in-memory "
               "byte slice (< 2^47 bytes). Trusted: Coq kernel; hand-written models tied by the correspondence; the Go runtime's rules for "
               "makeslice / slice bounds as transcribed (len > maxAlloc/elemsize or negative panics).",
    design_ref="5 (C12)",
    trusted=["models C12_Parsers.v (hand-written transcription of compactindexsized/{compactindex,query}.go, indexes/metadata.go, indexmeta, "
             "carreader/reader.go, blocktimeindex/writer.go, bucketteer/read.go, gsfa/linkedlog/linked-log.go with the fixes/C12-*.diff applied; "
             "tied by outcome-class correspondence on mutated valid files) and C11_Nodes.v (decoders)",
             "site classification C12_Sites.v: 'Trusted' entries are local syntactic arguments checked by reading (constant index into a fixed-size "
             "array, length test in the preceding statement, map access, size bounded by a uint8 / 3-byte field)",
             "go-cid CidFromReader, go-car LdRead/ReadHeader, fxamacker/cbor, klauspost/compress zstd, protobuf, serde bincode runtime: third-party, "
             "assumed to return an error and never panic; fuzzed through every entry point that reaches them",
             "gen/c12.go lists syntactic sites only (no nil-pointer dereferences, no integer overflow, no goroutine leaks)"] + COMMON_TRUSTED,
    assumptions=["inputs are finite byte strings; block-time inputs are in-memory slices shorter than 2^47 bytes",
                 "runtime.maxAlloc = 2^48 (linux/amd64) in the makeslice rule of the block-time model",
                 "the size argument of ReadWithSize and the Size field of index entries are part of the input (allocation is bounded in them)"],
)
PROP["trusted"] = ["translator gen/golite.go and the semantics coq/GoLite.v (DESIGN.md section 10a) for the translated (*Index).Get; NewErrSlotOutOfRange is an oracle returning an error value"] + list(PROP.get("trusted", COMMON_TRUSTED))
