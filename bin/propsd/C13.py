from common import COMMON_TRUSTED

# c13b_test.go, manifest sweep: two cuts of a gsfa manifest look like a complete manifest to the pinned tree, because the
# format has no length field: (a) cut at offset 0 - NewManifest / gsfa.NewGsfaReader take the empty file for a new
# manifest (open succeeds, empty metadata, and the reader WRITES a 17-byte header into it); (b) cut exactly between two
# 16-byte tuples - opens and ReadAll returns the shorter log. "observe" (default) records them as a note and a count in the
# evidence, "enforce" turns them into failures (signatures empty-manifest-opens-as-new:*, manifest-cut-between-tuples-reads-shorter-log:*).
_MANIFEST_ENV = {"VERIF_C13_MANIFEST_UNDETECTABLE": "enforce"}

PROP = dict(
    title="Truncated index or CAR files fail loudly instead of answering 'not found'",
    coq_target="Properties/C13.vo",
    harness=[dict(name="truncation", pkg=".", run="^TestVerif_C13$",
                  files={"zz_verif_fixture_test.go": "harness/main/fixture_test.go",
                         "zz_verif_c13_test.go": "harness/main/c13_test.go",
                         "zz_verif_c13b_test.go": "harness/main/c13b_test.go",
                         "zz_verif_c13c_test.go": "harness/main/c13c_test.go"},
                  env=_MANIFEST_ENV, timeout=600, timeout_thorough=2400)],
    technique="Coq proof, once for all reader programs over a read oracle (logical-relation / monotonicity argument), instantiated by the repository's readers and proved again on the byte-level reader models of C04/C05/C06 (whose correspondence checks tie them to the Go readers) + truncation sweep on the real readers with recorded read traces checked by the model",
    level_text="Theorem (Coq, no axioms) for EVERY reader program (return / fail / positioned read whose failure aborts), every file and every cut: the truncated copy yields the complete file's result or a read error, never another answer; monotone in the read oracle in general; a failed read always ends in a read error. The compact-index program is proved equal to the byte-level lookup model. Tie: one generated epoch, all file kinds (4 compact-index kinds, sig-exists, block-time, gsfa pubkey index / linked log / manifest, CAR via ReaderAt and via bufio); cut points exhaustive for small files, boundaries +-2 and a random sample for large ones, x every stored key and absent keys (~1.6*10^5 lookups quick); the four compact-index kinds are opened over an io.ReaderAt twice, as a local index and as the server opens a remote one (OpenWithReader_* then Prefetch(true)), plus a generated 3-bucket cid-to-offset-and-size index whose buckets exceed the prefetch window (cuts at header / bucket-header / window / bucket ends +-2, inside every read of a lookup, and a sample); the gsfa manifest is cut at EVERY offset and opened through gsfa.NewGsfaReader and manifest.NewManifest (+ReadAll): the open fails or version, metadata and tuples are the complete file's, and the open leaves the file's bytes untouched (the two cuts the format cannot detect - offset 0 and exactly between two tuples - are recorded, see VERIF_C13_MANIFEST_UNDETECTABLE); every ReadAt of the real readers is recorded and the Coq checker confirms no reader answers after a failed read (prefetch-off runs; with prefetch on the advisory read-ahead may fail and is discarded).",
    level_note="Trusted: Coq kernel; the claim that each Go reader is a reader program is what the recorded read traces check on sampled runs (a reader swallowing a read error would answer after a failed read); pure parsing steps between reads are arbitrary functions in the theorem.",
    design_ref="5 (C13)",
    trusted=["C13_Trunc.v reader-program abstraction (tied by recorded ReadAt traces of the real readers)", "reader models C04_Model.lookup_at, C05_Model.open_/has, C06_LinkedLog.read_with_size, C06_Store.bwalk (tied to the Go readers by the C04/C05/C06 correspondence checks, not by this check)"] + COMMON_TRUSTED,
    assumptions=["io.ReaderAt implementations report short reads as errors"],
)

# GoLite (DESIGN.md section 10a)
PROP["technique"] += " + (Bucket).loadEntry / unmarshalEntry translated on every run (GoLite): a short read yields the reader's error, never an entry"
PROP["level_text"] += "; the compact index's entry loader itself ((Bucket).loadEntry, unmarshalEntry) is translated from the Go source on every run and proved, for every positioned reader, to return the decoded entry on a complete read and the reader's error on a short read (C13_translated_loadEntry_complete_or_readers_error)"
PROP["trusted"] = ["translator gen/golite.go and the semantics coq/GoLite.v (DESIGN.md section 10a); (*io.SectionReader).ReadAt is an oracle of the theorem"] + list(PROP.get("trusted", []))

# repeated and concurrent lookups (c13c_test.go)
PROP["level_text"] += "; the oracle is applied to EVERY lookup on an open reader, not only the first: at every directed / boundary cut (and a quarter of the sampled ones) each key is looked up three times on the same open reader (all kinds; sig-exists also through bucketteer.Open (mmap) and an *os.File over a copy truncated on disk, and on a generated sig-exists file with 7/5/2/1 signatures per prefix cut at every offset; gsfa through one reader per truncated directory; CAR through one ReaderAt / one seekable data reader per truncated copy), and for the compact-index kinds (prefetch off and on) and sig-exists 8 lookups of keys that share their first read (same bucket / prefix, the same key included) are issued at the same time on one open reader over a truncated copy served by a ReaderAt that holds every read until all running lookups have issued theirs (lock step; or only the first read of each), 6 rounds per cut and group, cuts inside the bucket header / bucket count, inside entry reads and a few random ones (signatures truncated-file-answers-differently-on-repeated-lookup:*, truncated-file-answers-differently-under-concurrent-lookups:*)"
PROP["level_note"] += " The concurrent rounds force the overlap with a barrier inside the harness's ReaderAt; no verdict depends on timing (a 30 ms timer only releases the barrier when a lookup waits for another lookup instead of reading)."
