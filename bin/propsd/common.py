COMMON_TRUSTED = [
    "Go semantics assumed by the models: slices/maps/integer conversions, FIFO buffered channels, errgroup.SetLimit blocks Go, sort.Slice yields a sorted permutation",
]
