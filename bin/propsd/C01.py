from common import COMMON_TRUSTED

PROP = dict(
    title="Every archived object, slot and signature resolves through the generated indexes",
    coq_target="Properties/C01.vo",
    harness=[dict(name="indexall", pkg=".", run="^TestVerif_C01$",
                  files={"zz_verif_fixture_test.go": "harness/main/fixture_test.go",
                         "zz_verif_c01_test.go": "harness/main/c01_test.go"},
                  timeout=900, timeout_thorough=2400, race=True)],
    technique="Coq proof (refinement of createAllIndexes + server lookups to the archive content, composed with the compact-index and sig-exists interfaces) + differential execution of createAllIndexes/Epoch against the model on generated epochs + the Go codec functions themselves (indexes/uints.go, offset-and-size.go) translated on every run (GoLite) and proved equal to the model codec",
    level_text="Theorems (Coq, no axioms), for every header, object list, epoch: if the model of createAllIndexes reports success on a well-formed CAR then every object is fetched by CID with exactly its bytes, every block slot resolves to its CID and block time, every first signature resolves to its CID and is reported existing; the recorded (offset,size) of each object is its true position; 6+3-byte codec and block-time file round trips. The compact index and sig-exists enter through their proved interfaces (C04_found, C05 no-false-negative). Tie: generated epochs, among them one large epoch (about 48 000 objects and 45 000 transactions in the quick tier, twice that in the thorough tier: several buckets near the 10 000-entries target in the cid and the signature index, sealed concurrently), are indexed by the real createAllIndexes and read back through index readers and a loaded Epoch (file and HTTP ReaderAt); recorded offsets, codec bytes and block-time files are compared with the model by coqc.; the index value codec functions (UintNtob/BtoUintN, OffsetAndSize.Bytes/FromBytes/IsValid) are translated from the Go source on every run and proved to be the model's enc_os/dec_os (C01_translated_* theorems)",
    level_note="Trusted: Coq kernel; hand-written model of cmd-x-index-all.go/epoch.go/indexes/blocktimeindex tied by correspondence; go-cid parser contract (good_cid), payload decoders as parameters (C11), file system, bufio. Partial: the five sealing goroutines' error propagation is modelled as 'any failing seal fails the run' (see known-findings for the shared err variable).",
    design_ref="5 (C01)",
    trusted=['translator gen/golite.go (Go leaf functions -> terms of the GoLite fragment, re-run on every check) and the semantics coq/GoLite.v (fixed-width wrap-around, panics on bad index / slice / shift / division, fuel for loops and calls; capacity identified with length; out-parameters for slices written through; aliasing of two arguments not detected) - DESIGN.md section 10a; exercised by the vm_compute examples of the property file', "model C01_IndexAll.v/Car.v of cmd-x-index-all.go, carreader, indexes/offset-and-size.go, blocktimeindex, epoch.go (hand-written; tied by correspondence on generated epochs)",
             "go-cid CidFromReader contract: parses a CID that occurs in the CAR and returns its length",
             "payload decoders (kind byte, slot, blocktime, first signature) are parameters of the theorems"] + COMMON_TRUSTED,
    assumptions=["well-formed epoch CAR: distinct CIDs and slots, parsable CIDs", "epoch * 432000 + 432000 < 2^64", "compact index satisfies C04_found; sig-exists satisfies C05 no-false-negative"],
)
