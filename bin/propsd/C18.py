from common import COMMON_TRUSTED

PROP = dict(
    title="Parallel epoch search returns a hit whenever one exists",
    coq_target="Properties/C18.vo",
    harness=[dict(name="firstsuccess", pkg=".", run="^TestVerif_C18(Kinds|Large)?$",
                  files={"zz_verif_c18_test.go": "harness/main/c18_test.go",
                         "zz_verif_c18kinds_test.go": "harness/main/c18kinds_test.go",
                         "zz_verif_c18large_test.go": "harness/main/c18large_test.go"}, timeout=900, timeout_thorough=2400)],
    technique="Coq proof over all schedules of a transition-system model of FirstSuccess + exhaustive gated-order correspondence against the Go code",
    level_text="Theorems (Coq, no axioms) for every job list, limit and schedule: a success result is a job's value, an error result lists a permutation of all errors and implies all jobs failed, progress (never stuck) and a 3n+2 bound on schedule length. Tie: the real FirstSuccess/JobGroup is run on every outcome vector x completion order x limit for <=4 (quick) / <=5 (thorough) jobs and each observed result must satisfy the proved acceptance predicate (and equal the model's run where the order is forced). A second enumeration varies the ERROR VALUE a failing job returns (plain value, ErrNotFound, ErrorSlice of 1-3 elements from a nested group, errors wrapping or equal to context.DeadlineExceeded / context.Canceled of a job-local sub-context, pointer-typed error) with the request context live: all vectors for <=3 jobs and the at-most-one-success families for 4 (thorough: 5) jobs x orders x limits; the error list must hold exactly one entry per job, matched by identity / errors.Is / errors.As against the values the jobs returned. A third part runs LARGE job sets (6, 17, 32, 33, 34, 64, 100, 257 jobs; thorough also 65, 128, 500) with structured outcome vectors (all fail with own errors / all not-found / all not-found but one hard error at the first, middle or last completion position / exactly one success at the first, middle or last completion position) x completion orders identity, reverse, seeded shuffle x limits -1, 1, 4, n under the same oracle (plus: a list for a job set with a hard error is not all-not-found, the classification findEpochNumberFromSignature makes); the cases with <=64 jobs at limits 1 and -1 are also judged by the Coq acceptance predicate (limit 1: equal to the model's run).",
    level_note="Trusted: Coq kernel; the hand-written transition system (launcher/workers/closer/consumer; errgroup limit; buffered FIFO channel) as a model of first-success.go, validated by exhaustive small-scope runs; live request context only.",
    design_ref="5 (C18)",
    trusted=["model FS.v of first-success.go (hand-written; tied by exhaustive correspondence for small job counts)"] + COMMON_TRUSTED,
    assumptions=["request context stays live", "errgroup/channels behave as modelled"],
)
