from common import COMMON_TRUSTED

PROP = dict(
    title="Remote-file range cache is transparent",
    coq_target="Properties/C17.vo",
    harness=[dict(name="rangecache", pkg="./range-cache", run="^TestVerif_C17$",
                  files={"range-cache/zz_verif_c17_test.go": "harness/range-cache/c17_test.go"},
                  timeout=900, timeout_thorough=2400, race=True),
             dict(name="httpreader", pkg="./split-car-fetcher", run="^TestVerif_C17HTTP$",
                  files={"split-car-fetcher/zz_verif_c17_test.go": "harness/split-car-fetcher/c17_test.go"},
                  timeout=600, timeout_thorough=1800)],
    technique="Coq proof (invariant + induction over all histories x interleavings x map-order choices) over a state-machine model of range-cache.go; tie: exhaustive short / random long / concurrent histories on the real RangeCache, property oracle on every observation and a proved acceptance predicate evaluated by coqc on the recorded histories and cache contents",
    level_text="Theorems (Coq, no axioms) over every list of (thread, atomic action) with every nondeterministic choice (which superset entry is hit, setRange visit order, context cancellation, which entries expire): every cached entry equals the remote slice (invariant preserved by every action); every completed GetRange returns exactly the remote bytes of its range or an error, and an error only when the read is not inside the file, its own remote fetch failed, or its context was cancelled; a failed fetch leaves the cache unchanged; reads reaching past the end (or negative / int64-overflowing) are refused in every state; the cache stays an antichain so setRange is order-independent. Tie: the real RangeCache is run on all histories of length <=2 over the full operation alphabet of a 6-byte file, length 3 over a reduced alphabet, length 4 over a 4-byte file (longer in thorough), random long histories, and concurrent readers (thorough: under -race); HTTPSingleFileRemoteReaderAt.ReadAt is run against a loopback HTTP server that answers per request with 206, error statuses with long bodies, ignored ranges, truncated bodies or dropped connections; each observation is judged by the property oracle and sampled histories (replies + cache contents after each step) by the acceptance predicate proved to imply the property.",
    level_note="Trusted: Coq kernel; the hand-written model C17_RC.v of range-cache.go (critical sections of rc.mu as atomic actions; Go map iteration as a free choice), tied by the runs above; sync.RWMutex gives mutual exclusion of writers and readers; SetRange values are truthful and not mutated by the caller (no caller in the repository uses SetRange); a remote fetch that reports success filled the buffer with the remote bytes. Real goroutine interleavings are sampled, not enumerated. remote-file.go's HTTP fetch function is outside the model (it is the 'remote'): the premise that a fetch reporting success delivered the file's bytes is checked on the real HTTPSingleFileRemoteReaderAt against a loopback server that misbehaves per request (oracle only).",
    design_ref="5 (C17)",
    trusted=["translator gen/c17.go (the boolean range predicates and argument checks of range-cache.go, expression by expression)", "model C17_RC.v of range-cache/range-cache.go (hand-written; tied by exhaustive small-scope, random and concurrent runs)",
             "sync.RWMutex: writers exclusive, readers do not modify the cache"] + COMMON_TRUSTED,
    assumptions=["file size fits int64 (premise size_fits)", "GetRange/SetRange arguments are int64 values",
                 "SetRange callers pass the remote's bytes (truthful)", "a fetch that returns nil error filled the buffer with the remote bytes"],
)
