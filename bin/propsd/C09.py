from common import COMMON_TRUSTED

PROP = dict(
    title="Queries and epoch reloads never deadlock and see a consistent epoch set",
    coq_target="Properties/C09.vo",
    harness=[dict(name="lockset", pkg=".", run="^TestVerif_C09$",
                  files={"zz_verif_c09_test.go": "harness/main/c09_test.go"},
                  # overlay COPY of multiepoch.go whose RWMutex is a counting wrapper defined in the injected test
                  # file (lock traces + forced schedules); falls back to stress only when the literal is gone
                  rewrites={"multiepoch.go": [("sync.RWMutex", "vc09RWMutexOf[sync.RWMutex]")]},
                  timeout=900, timeout_thorough=2400)],
    technique="Coq proof over all schedules of a transition-system model of Go's writer-preferring sync.RWMutex + lock programs of every function of package main regenerated from /repo by a go/ast+go/types translator on each run + lock-trace correspondence (counting wrapper overlay), forced deadlock-schedule replay and stress with a progress watchdog",
    level_text="Theorems (Coq, no axioms). For any number of goroutines each running any sequence of calls of package-main functions, under EVERY schedule of the RWMutex transition system: never stuck before all are finished (C09_deadlock_free, C09_terminates), every schedule has at most 2*ops+1 steps; this rests on C09_programs_flat, a vm_compute fact about the lock programs the translator regenerates from /repo's source on every check (one program per function and control-flow path, callees inlined), so a nested acquisition anywhere in package main breaks the build of the theorem. Every program that re-RLocks while read-holding deadlocks against one writer (C09_nested_deadlocks, schedule computed and proved). Epoch set: the listing is strictly descending (duplicate-free, newest first) in every reachable state and for every iteration order / sorted permutation; most-recent/oldest are the max/min loaded epoch; a query addressed to an epoch no writer targets gets exactly the idle server's answers (C09_isolated_query). Tie: observed lock traces of 21 accessor/writer calls x 3 set sizes must be generated programs; the model's deadlock verdict must equal the forced writer-in-between replay on the real code; random sequential histories must be accepted by the map model; stress (8 readers x 3 writers, GOMAXPROCS 2..16) with watchdog and listing/isolated-query oracles.",
    level_note="Trusted: Coq kernel; RW.v as a model of sync.RWMutex (writer-preferring: a pending writer blocks new readers); the translator gen/c09.go (go/types over package main with stub imports; calls through interfaces/function values are not followed; loops unrolled twice) validated by the lock-trace correspondence; the stress run samples schedules, the theorems cover all. Data-race freedom of the map is only checked statically (no access outside the lock on any path).",
    design_ref="5 (C09)",
    trusted=["model RW.v of sync.RWMutex (writer-preferring; hand-written)",
             "translator gen/c09.go: lock programs of package main (validated by lock-trace correspondence on the exercised accessors; dynamic dispatch not followed)",
             "map model C09_EpochSet.v of MultiEpoch.epochs and its five writers (validated by sequential-history correspondence)"] + COMMON_TRUSTED,
    assumptions=["one MultiEpoch instance (all *MultiEpoch values are the same lock)",
                 "sync.RWMutex behaves as modelled (pending writer blocks new readers; no other blocking primitive is held across MultiEpoch.mu)"],
)
