from common import COMMON_TRUSTED

_GEN = {"zzverif/c14gen/c14gen.go": "harness/c14gen/c14gen.go"}

PROP = dict(
    title="Multi-frame payloads reassemble to the original bytes or are rejected",
    coq_target="Properties/C14.vo",
    harness=[
        dict(name="tooling", pkg="./tooling", run="^TestVerif_C14$",
             files=dict(_GEN, **{"tooling/zz_verif_c14_test.go": "harness/tooling/c14_test.go"}),
             timeout=600, timeout_thorough=1500),
        dict(name="accum", pkg="./accum", run="^TestVerif_C14$",
             files=dict(_GEN, **{"accum/zz_verif_c14_test.go": "harness/accum/c14_test.go"}),
             timeout=600, timeout_thorough=1500),
        dict(name="storage", pkg=".", run="^TestVerif_C14$",
             files=dict(_GEN, **{"zz_verif_c14_test.go": "harness/main/c14_test.go"}),
             timeout=900, timeout_thorough=1500),
    ],
    technique="Coq proofs about an executable model of LoadDataFromDataFrames (store, recursive collection through `next` links, "
              "sort by index, count check, CRC64-ISO/FNV-1a in Gallina) + differential execution of the Go code against the model "
              "on generated layouts and every single-frame fault",
    level_text="Theorems (Coq, no axioms; for ANY function returning a sorted permutation in place of sort.Slice): round trip for every "
               "payload/chunking/frame count/fan-out/CID assignment/store order on the schema-comment layout and on any link tree; "
               "acceptance characterisation (frames used = total, each linked exactly once, CRC64 or FNV-1a of the returned bytes = recorded hash); "
               "missing frame, dropped link, duplicated link => error; an accepted different payload is a checksum collision (strongest true "
               "statement for a 64-bit checksum); the repaired collection terminates on every finite store, the pinned one never returns on a "
               "cyclic link. Tie: tooling.LoadDataFromDataFrames, accum.ObjectsToTransactionsAndMetadata and storage.go's "
               "getTransactionAndMetaFromNode/parseTransactionAndMetaFromNode run on generated payloads x every fault; observations evaluated "
               "by the Coq checker (load cases, layout cases, checksum cases).",
    level_note="Partial: a 64-bit checksum cannot exclude every altered payload (C14_wrong_bytes_need_collision is what is proved; bit flips and "
               "frame swaps are exercised empirically). Trusted: Coq kernel; hand-written model of data-frames.go tied by differential cases; "
               "slicing-by-8 CRC of Go assumed equal to the byte-wise table update (differential-tested); CIDs opaque (getters do not verify content).",
    design_ref="5 (C14)",
    trusted=["model C14_Frames.v of tooling/data-frames.go (hand-written; follows the code with fixes/C14-cyclic-next-links.diff applied)",
             "C14_Hash.v: CRC64-ISO / FNV-1a re-implemented in Gallina, differential-tested against hash/crc64 and hash/fnv on every run; "
             "which polynomial / fnv variant / order the repository uses is a generated fact (gen/c14.go -> coq/Generated/ConstsC14.v)",
             "zstd, protobuf and bincode codecs used only to observe payloads through accum/storage"] + COMMON_TRUSTED,
    assumptions=["sort.Slice returns a sorted permutation", "CIDs are opaque keys: a getter may return any frame for a CID",
                 "payloads carry the checksum and frame count for the fault statements"],
)

# GoLite (DESIGN.md section 10a)
PROP["technique"] += " + ipldbindcode.VerifyHash translated on every run (GoLite) and proved equal to the model's verify_hash"
PROP["level_text"] += "; VerifyHash is translated from the Go source on every run and proved to be the model's verify_hash (C14_translated_VerifyHash_is_verify_hash)"
PROP["trusted"] = ['translator gen/golite.go (Go leaf functions -> terms of the GoLite fragment, re-run on every check) and the semantics coq/GoLite.v (fixed-width wrap-around, panics on bad index / slice / shift / division, fuel for loops and calls; capacity identified with length; out-parameters for slices written through; aliasing of two arguments not detected) - DESIGN.md section 10a; exercised by the vm_compute examples of the property file'] + list(PROP.get("trusted", []))
