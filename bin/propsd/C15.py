import os
from common import COMMON_TRUSTED

_VERIF = os.path.dirname(os.path.dirname(os.path.dirname(os.path.abspath(__file__))))

PROP = dict(
    title="Block-by-block CAR traversal delivers each object once with its true offset",
    coq_target="Properties/C15.vo",
    harness=[dict(name="accum", pkg="./accum", run="^TestVerif_C15$",
                  files={"accum/zz_verif_c15_test.go": "harness/accum/c15_test.go",
                         "accum/zz_verif_c15_consumers_test.go": "harness/accum/c15_consumers_test.go"},
                  timeout=900, timeout_thorough=2400, race=True,
                  # thorough runs under -race: reports go to the scratch directory, the harness turns them into a
                  # `data-race` failure (halt_on_error=0 lets the run finish and write its report first)
                  # VERIF_C15_RETAINED: objects looked at again AFTER their callback returned / after Run returned (neither
                  # consumer keeps them that long, the property does not speak about it): "observe" = counted only,
                  # "enforce" = failure `retained-object-changed-after-return`
                  env={"GORACE": "log_path=%s halt_on_error=0" % os.path.join(_VERIF, ".work", "C15", "race_report"),
                       "VERIF_C15_RETAINED": "observe"})],
    technique="Coq proof over all schedules of a producer / bounded FIFO / single-consumer transition system for accum.ObjectAccumulator over the CAR layout of Car.v, plus differential runs of the real accumulator on generated CARs checked by the model and by a ground-truth oracle",
    level_text="Theorems (Coq, no axioms) for every CAR (any header, any objects), flush kind, ignore set, skip count, queue capacity and EVERY schedule of producer steps, flusher receives and callback completions: when Run returns the callback sequence equals groups_spec (kept objects cut after every block: each block once, in file order, with the kept objects since the previous block; trailing kept objects as a final parentless group), at every moment the delivered groups are a prefix of it, every delivered object's (offset, section length) reads back exactly its section from the file bytes (skipped and ignored sections counted), the result is schedule independent, and for any capacity >= 1 (the generated real capacity included) no state is stuck, schedules are finite and Run can always complete. Tie: the real accumulator is run on generated CARv1 files (0..N children, more children than the 5000 preallocation, more groups than the queue holds with the producer blocked on the full queue, trailing objects, all 128 ignore sets, every flush kind, 1/2/3-byte section varints, several header lengths and CID shapes) plus CARs of several MiB with payloads of 0.3-5.5 KiB (thorough: tens of MiB), with fewer and with more groups than the queue holds) with instantaneous/slow/random callbacks and two forced schedules (gated: the first callback is held until the reader has queued everything the queue can take; lockstep: the reader is fed the file group by group by the consumer) under GOMAXPROCS 1/4/16 (-race in the thorough tier), consumed both read-only (as the address indexer) and splitter-style (the callback appends the parent and extra elements to the children slice, as cmd-car-split.go does); every observed callback sequence must equal the ground truth, every offset must read back from the file, every delivered payload must equal the bytes stored in the file at the object's position when it is read late (after the delay / after the reader is done), the slice a consumer built by appending must not change under it and nothing it appended may show up in a later group, and each distinct observation is re-checked by the Coq checker (spec + model under two opposite schedulers).",
    level_note="Trusted: Coq kernel; the hand-written transition system (Run loop, sendToFlusher on a buffered FIFO channel, single flusher, WaitGroup drain before close) as a model of accum/block.go, validated by the differential runs; carreader/go-cid parsing of sections (exercised, not modelled beyond section = uvarint(len) ++ cid ++ data); real goroutine timing is sampled, not enumerated. Scope: well-formed CARv1, payloads >= 2 bytes, sections <= go-car MaxAllowedSectionSize, callback returns nil, context not cancelled.",
    design_ref="5 (C15)",
    trusted=["model C15_Accum.v of accum/block.go (hand-written; tied by differential runs on generated CARs)",
             "Car.v layout of CARv1 sections (shared with C01)"] + COMMON_TRUSTED,
    assumptions=["callback returns nil (ErrStop / other errors are outside the property)", "context not cancelled",
                 "payloads have >= 2 bytes and sections fit go-car's MaxAllowedSectionSize", "file shorter than 2^64 bytes",
                 "buffered FIFO channel and sync.WaitGroup behave as modelled"],
)
