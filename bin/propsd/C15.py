import os
from common import COMMON_TRUSTED

_VERIF = os.path.dirname(os.path.dirname(os.path.dirname(os.path.abspath(__file__))))

PROP = dict(
    title="Block-by-block CAR traversal delivers each object once with its true offset",
    coq_target="Properties/C15.vo",
    harness=[dict(name="accum", pkg="./accum", run="^TestVerif_C15$",
                  files={"accum/zz_verif_c15_test.go": "harness/accum/c15_test.go"},
                  timeout=900, timeout_thorough=2400, race=True,
                  # thorough runs under -race: reports go to the scratch directory, the harness turns them into a
                  # `data-race` failure (halt_on_error=0 lets the run finish and write its report first)
                  env={"GORACE": "log_path=%s halt_on_error=0" % os.path.join(_VERIF, ".work", "C15", "race_report")})],
    technique="Coq proof over all schedules of a producer / bounded FIFO / single-consumer transition system for accum.ObjectAccumulator over the CAR layout of Car.v, plus differential runs of the real accumulator on generated CARs checked by the model and by a ground-truth oracle",
    level_text="Theorems (Coq, no axioms) for every CAR (any header, any objects), flush kind, ignore set, skip count, queue capacity and EVERY schedule of producer steps, flusher receives and callback completions: when Run returns the callback sequence equals groups_spec (kept objects cut after every block: each block once, in file order, with the kept objects since the previous block; trailing kept objects as a final parentless group), at every moment the delivered groups are a prefix of it, every delivered object's (offset, section length) reads back exactly its section from the file bytes (skipped and ignored sections counted), the result is schedule independent, and for any capacity >= 1 (the generated real capacity included) no state is stuck, schedules are finite and Run can always complete. Tie: the real accumulator is run on generated CARv1 files (0..N children, more children than the 5000 preallocation, more groups than the queue holds with the producer blocked on the full queue, trailing objects, all 128 ignore sets, every flush kind, 1/2/3-byte section varints, several header lengths and CID shapes) with instantaneous/slow/random/gated callbacks under GOMAXPROCS 1/4/16 (-race in the thorough tier); every observed callback sequence must equal the ground truth, every offset must read back from the file, contents are compared late inside slow callbacks, and each distinct observation is re-checked by the Coq checker (spec + model under two opposite schedulers).",
    level_note="Trusted: Coq kernel; the hand-written transition system (Run loop, sendToFlusher on a buffered FIFO channel, single flusher, WaitGroup drain before close) as a model of accum/block.go, validated by the differential runs; carreader/go-cid parsing of sections (exercised, not modelled beyond section = uvarint(len) ++ cid ++ data); real goroutine timing is sampled, not enumerated. Scope: well-formed CARv1, payloads >= 2 bytes, sections <= go-car MaxAllowedSectionSize, callback returns nil, context not cancelled.",
    design_ref="5 (C15)",
    trusted=["model C15_Accum.v of accum/block.go (hand-written; tied by differential runs on generated CARs)",
             "Car.v layout of CARv1 sections (shared with C01)"] + COMMON_TRUSTED,
    assumptions=["callback returns nil (ErrStop / other errors are outside the property)", "context not cancelled",
                 "payloads have >= 2 bytes and sections fit go-car's MaxAllowedSectionSize", "file shorter than 2^64 bytes",
                 "buffered FIFO channel and sync.WaitGroup behave as modelled"],
)
