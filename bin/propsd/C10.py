from common import COMMON_TRUSTED

PROP = dict(
    title="An epoch is served only from indexes built for that epoch and CAR",
    coq_target="Properties/C10.vo",
    harness=[dict(name="load", pkg=".", run="^TestVerif_C10$",
                  files={"zz_verif_fixture_test.go": "harness/main/fixture_test.go",
                         "zz_verif_c10_test.go": "harness/main/c10_test.go"},
                  timeout=1200, timeout_thorough=2400)],
    technique="Coq proof (soundness of the load-time acceptance decision; metadata codec round trip; CID-checked fetch) + exhaustive enumeration of file/identity swaps against the real NewEpochFromConfig compared with the model's decision",
    level_text="Theorems (Coq, no axioms): acceptance implies every file has the kind of its role, the configured epoch and (where recorded) one common root CID; index metadata round-trips for every metadata list within the format bounds and oversize metadata is rejected; a CID fetch from any CAR returns only a section whose CID field is the requested one. Tie: three generated epochs (A, another epoch, another CAR of A's epoch); every index file and the address-index directory (whole, only its pubkey index, only its manifest) replaced singly and in pairs, every file offered in every other role, the CAR replaced; the epoch's own files with ONLY the recorded root CID replaced by a sibling CID (same multihash, raw / dag-pb / dag-json codec or CIDv0 - a different root CID) in each root-recording file (cid-to-offset-and-size, slot-to-cid, sig-to-cid, sig-exists, gsfa manifest, gsfa pubkey index) singly, in every pair (one sibling in both, two different siblings) and in all of them (the one consistent set, accepted, and shown to still serve every object): ~350 NewEpochFromConfig calls whose accept/reject is compared with the model's decision on identities the harness reads from the files; Filecoin mode (when the retrieval client can be set up): the configured root replaced by another CAR's root and by each sibling, and the epoch's configured root with indexes that all record another root - each must be rejected (Go oracle only, the model has no configured root); indexes of A with a CAR they were not built from (another build; two equal-length sections exchanged; every group of equal-length sections rotated) served from a local file, through a ReaderAt and from a local file by a process whose location cache was filled from the right CAR: every CID fetched 6 times (3 rounds over all objects, then 3 times back to back; 9+3 thorough), every answer must be an error or the bytes stored under the requested CID; metadata encode/decode cases.",
    level_note="Trusted: Coq kernel; hand-written model C10_Load.v; typed openers' kind recognition is read by the harness from the files. Files that record no root CID (block-time table) are modelled as the code treats them.",
    design_ref="5 (C10)",
    trusted=["model C10_Load.v of epoch.go:NewEpochFromConfig / indexmeta (hand-written; tied by exhaustive swap enumeration)"] + COMMON_TRUSTED,
    assumptions=["deprecated index formats and GSFA manifest version < 2 are exempt on the code's legacy paths (not exercised)"],
)
