from common import COMMON_TRUSTED

PROP = dict(
    title="No request can crash the server",
    coq_target="Properties/C08.vo",
    harness=[dict(name="requests", pkg=".", run="^TestVerif_C08$",
                  files={"zz_verif_fixture_test.go": "harness/main/fixture_test.go",
                         "zz_verif_c08_test.go": "harness/main/c08_test.go"},
                  timeout=900, timeout_thorough=2400)],
    technique="Coq proof of totality (no Panic outcome) of the request-parameter parsers, dispatch, REST front, gRPC filter / slot-window handling with explicit panic sites; a translator lists every potential panic site of the request-handling source on each run and a Coq theorem requires each to be classified (guarded by a named theorem or locally impossible) + grammar-generated JSON-RPC / HTTP / gRPC requests against the real handlers with the outcome class compared with the model",
    level_text="Theorems (Coq, no axioms): for every method and every params member (missing, null, non-array, any array of JSON values and option objects) the JSON-RPC handler's parse/validate stage never panics; for every gRPC stream filter (absent optional flags, malformed accounts) the call streams or returns InvalidArgument; the unguarded variants are refuted by witnesses. Tie: 3 600 grammar-generated JSON-RPC requests (+ mutated/truncated bodies, HTTP method x path shapes, gRPC messages incl. the bidirectional Get stream) against the handlers with 0/1/3 epochs loaded; any panic is a failure and the outcome class (proceeds / invalid-params / method-not-found / panic) of every request is compared with the model.",
    level_note="Trusted: Coq kernel; hand-written model C08_Requests.v (strings abstracted to what the parsers distinguish); fasthttp, grpc-go and jsoniter do not panic on the inputs they are given. Partial: response assembly over archive data (decoders, metadata parsers) is C12's subject.",
    design_ref="5 (C08)",
    trusted=["translator gen/c08.go (syntactic site extraction: index, slice, unchecked assertion, dereference, input-sized make, division, panic/Must*) and the per-site reasons of C08_Sites.v marked Trusted (reviewed by hand; method calls on nil receivers and panics inside callees outside the listed files are not sites)", "model C08_Requests.v of request-response.go / getSignaturesForAddress.go / multiepoch.go / grpc-server.go (hand-written; tied by grammar-based differential runs)"] + COMMON_TRUSTED,
    assumptions=["frameworks (fasthttp, grpc-go, jsoniter) do not panic"],
)
