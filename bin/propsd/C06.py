from common import COMMON_TRUSTED

# Literal constants of gsfa/gsfa-write.go rewritten in a COPY of the file that is mapped into the build with
# `go test -overlay` (bin/check: a literal that is no longer found is silently left alone; the harness measures
# the constants that are really in effect and says so in the evidence).
def _shrink(batch, small):
    return {
        "gsfa/gsfa-write.go": [
            ("const itemsPerBatch = 1000", "const itemsPerBatch = %d" % batch),
            ("make(chan linkedlog.KeyToOffsetAndSizeAndBlocktime, 50)", "make(chan linkedlog.KeyToOffsetAndSizeAndBlocktime, 2)"),
            ("howManyBuffersToFlushConcurrently := 256", "howManyBuffersToFlushConcurrently := 2"),
            ("time.After(1 * time.Second)", "time.After(1 * time.Millisecond)"),
            ("slot%500 == 0 && a.accum.Len() > 100_000", "slot%2 == 0 && a.accum.Len() > 1"),
            ("len(values) < 100 &&", "len(values) < %d &&" % small),
            ("int(1_000_000)", "int(16)"),          # capacity hints of the two hash maps (allocation cost only)
        ],
        # size hint of the pubkey index builder: 100 bucket files -> 1 (cost only)
        "indexes/index-pubkey-to-offset-and-size.go": [("uint(1000000), // TODO", "uint(1000), // TODO")],
    }

PROP = dict(
    title="Address index returns every indexed transaction of an address, newest first",
    coq_target="Properties/C06.vo",
    harness=[
        dict(name="gsfa_shrunk", pkg="./gsfa", run="^TestVerif_C06$",
             files={"gsfa/zz_verif_c06_test.go": "harness/gsfa/c06_test.go"},
             rewrites=_shrink(2, 100), env={"VERIF_C06_MODE": "shrunk"}, timeout=900, timeout_thorough=2400, race=True),
        dict(name="gsfa_shrunk3", pkg="./gsfa", run="^TestVerif_C06$", thorough_only=True,
             files={"gsfa/zz_verif_c06_test.go": "harness/gsfa/c06_test.go"},
             rewrites=_shrink(3, 2), env={"VERIF_C06_MODE": "shrunk", "VERIF_C06_TAG": "3"}, timeout=900, timeout_thorough=2400),
        dict(name="gsfa_real", pkg="./gsfa", run="^TestVerif_C06$",
             files={"gsfa/zz_verif_c06_test.go": "harness/gsfa/c06_test.go"},
             env={"VERIF_C06_MODE": "real"}, timeout=900, timeout_thorough=2400, race=True),  # -race in the thorough tier
        dict(name="linkedlog", pkg="./gsfa/linkedlog", run="^TestVerif_C06LL$",
             files={"gsfa/linkedlog/zz_verif_c06ll_test.go": "harness/gsfa/linkedlog/c06ll_test.go"},
             timeout=600, timeout_thorough=1800),
    ],
    technique="Coq proofs (invariant over all step sequences of a small-step writer machine, refinement from record positions to (offset,size) byte pointers, codec round trip over an abstract compressor) + correspondence: the real writer/reader run on exhaustive small-scope histories under shrunk thresholds (overlay rewrite), real-threshold histories, GOMAXPROCS/pacing sweeps and a directed search for record lengths at the uvarint boundaries; every observation is compared with the model run by coqc, and the model's byte-level reader is run on the files the implementation wrote",
    level_text="Theorems (Coq, closed under the global context; zstd is an explicit round-trip premise): (1) C06_get_all: for every parameter vector (batch size, parked capacity, flush thresholds, rank size), every history of Push calls (slot, address list with repetitions, entry) and EVERY interleaving of the background flusher's steps, after Close the byte-level Get returns for every address exactly the entries pushed with it, each once, newest first - provided the log stays addressable by 6-byte offsets / 3-byte sizes; instantiated at the constants generated from gsfa-write.go. (2) C06_machine_get_all: the same for arbitrary step sequences over any lawful store. (3) C06_put_read_roundtrip: Put then ReadWithSize for every record length; the pinned prefix rule is refuted at length 128 (and 16384/16385). (4) C06_flush_refines / C06_reader_refines: byte store refines the position store. (5) C06_get_all_sync_flush: the pinned synchronous periodic flush is correct under the forced hypothesis that purge() drops no key; refuted without it. Refutations of the pinned close order / dropped parked batches by vm_compute witnesses. Tie: see technique; the model follows the REPAIRED code (fixes/C06-*.diff), the pinned tree is reported with replays.",
    level_note="Trusted: Coq kernel; the hand-written machine as a model of gsfa-write.go/gsfa-read.go/linked-log.go (atomicity: one flushKVs call, one channel receive, one per-key iteration of Push), validated by the correspondence runs; Go channel FIFO semantics; zstd round trip (premise); the pubkey-to-offset index (compactindexsized, property C04) is the abstract head map. Real goroutine timing is sampled (GOMAXPROCS 1/2/16 x pacing), the theorem covers all interleavings.",
    design_ref="5 (C06)",
    trusted=[
        "model C06_Machine.v/C06_Front.v/C06_LinkedLog.v of gsfa-write.go, gsfa-read.go, linkedlog/linked-log.go, linkedlog/offset-size-slot.go (hand-written; tied by the correspondence runs)",
        "tooling.CompressZstd/DecompressZstd round trip (explicit premise of the theorems; the real zstd is exercised by every harness run)",
        "pubkey-to-offset-and-size index = finite map from address to (offset,size) (compactindexsized is property C04)",
        "constants read from gsfa/gsfa-write.go by gen/c06.go (go/ast) into coq/Generated/ConstsC06.v",
    ] + COMMON_TRUSTED,
    assumptions=[
        "zstd: decompress (compress x) = x",
        "the linked log stays below 2^48 bytes and every record below 2^24 bytes (pointer format; Go panics beyond)",
        "entries are uint64 offset/size/slot and a flag byte",
        "no I/O error while writing or reading (the background writer only logs flush errors)",
    ],
)

# GoLite (DESIGN.md section 10a)
PROP["technique"] += " + the entry codec (OffsetAndSizeAndSlot.Bytes, uvarintReader.ReadUvarint/ReadByte, Bitmap.Get/Set, encodeUvarint) translated on every run (GoLite) and proved equal to the model's entry_enc / rd_uv / uvarint; the record decoder (OffsetAndSizeAndSlotSliceFromBytes with its loop + FromReader) translated likewise and proved equal to the model's entries_dec for every byte string"
PROP["level_text"] += "; the linked-log entry codec functions are translated from the Go source on every run and proved to be the model's entry_enc / rd_uv / uvarint, with encoding/binary's uvarint functions as an oracle equal to Codec.uvarint (C06_translated_* theorems); the record decoder that ReadWithSize runs on every decompressed payload (OffsetAndSizeAndSlotSliceFromBytes: the loop, FromReader, the silent end at io.EOF through the %w wrapping) is translated likewise and proved to be the model's entries_dec for every byte string, hence the identity on the writer's payload (C06_translated_record_decoder_is_entries_dec, ..._roundtrip)"
PROP["trusted"] = ['translator gen/golite.go (Go leaf functions -> terms of the GoLite fragment, re-run on every check) and the semantics coq/GoLite.v (fixed-width wrap-around, panics on bad index / slice / shift / division, fuel for loops and calls; capacity identified with length; out-parameters for slices written through; aliasing of two arguments not detected) - DESIGN.md section 10a; exercised by the vm_compute examples of the property file'] + list(PROP.get("trusted", []))
PROP["technique"] += " + (*LinkedLog).ReadWithSize itself (limit, bounds check, positioned read, the record's own length prefix, pointer to the previous record, decompression, entry decoder) translated on every run and proved equal to the model's read_with_size for every file, offset and size"
PROP["level_text"] += "; the record reader (*LinkedLog).ReadWithSize - the function whose length-prefix handling was repaired on the pinned tree - is translated from the Go source on every run together with decompressIndexes and proved, for every file, offset and size, to be the model's read_with_size (the file, binary.Uvarint, DecompressZstd and indexes.OffsetAndSize.FromBytes are oracles; the last one is itself translated and proved in C01): C06_translated_ReadWithSize_is_read_with_size"
PROP["technique"] += " + (*GsfaReader).Get itself (the walk along the chain with its limit) translated on every run and proved equal to the model's walk bwalk"
PROP["level_text"] += "; the chain walk (*GsfaReader).Get is translated from the Go source on every run (the record reader as an oracle answering as read_with_size, which the translated ReadWithSize is proved equal to) and proved, for every file and head pointer, to return what the model's bwalk returns when the limit is not reached - every entry of the chain, newest first - and the walk cut at the limit otherwise (C06_translated_Get_is_the_models_walk)"
