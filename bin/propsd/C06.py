from common import COMMON_TRUSTED

# Literal constants of gsfa/gsfa-write.go rewritten in a COPY of the file that is mapped into the build with
# `go test -overlay` (bin/check: a literal that is no longer found is silently left alone; the harness measures
# the constants that are really in effect and says so in the evidence).
def _shrink(batch, small):
    return {
        "gsfa/gsfa-write.go": [
            ("const itemsPerBatch = 1000", "const itemsPerBatch = %d" % batch),
            ("make(chan linkedlog.KeyToOffsetAndSizeAndBlocktime, 50)", "make(chan linkedlog.KeyToOffsetAndSizeAndBlocktime, 2)"),
            ("howManyBuffersToFlushConcurrently := 256", "howManyBuffersToFlushConcurrently := 2"),
            ("time.After(1 * time.Second)", "time.After(1 * time.Millisecond)"),
            ("slot%500 == 0 && a.accum.Len() > 100_000", "slot%2 == 0 && a.accum.Len() > 1"),
            ("len(values) < 100 &&", "len(values) < %d &&" % small),
            ("int(1_000_000)", "int(16)"),          # capacity hints of the two hash maps (allocation cost only)
        ],
        # size hint of the pubkey index builder: 100 bucket files -> 1 (cost only)
        "indexes/index-pubkey-to-offset-and-size.go": [("uint(1000000), // TODO", "uint(1000), // TODO")],
    }

PROP = dict(
    title="Address index returns every indexed transaction of an address, newest first",
    coq_target="Properties/C06.vo",
    harness=[
        dict(name="gsfa_shrunk", pkg="./gsfa", run="^TestVerif_C06$",
             files={"gsfa/zz_verif_c06_test.go": "harness/gsfa/c06_test.go"},
             rewrites=_shrink(2, 100), env={"VERIF_C06_MODE": "shrunk"}, timeout=900, timeout_thorough=2400),
        dict(name="gsfa_shrunk3", pkg="./gsfa", run="^TestVerif_C06$", thorough_only=True,
             files={"gsfa/zz_verif_c06_test.go": "harness/gsfa/c06_test.go"},
             rewrites=_shrink(3, 2), env={"VERIF_C06_MODE": "shrunk", "VERIF_C06_TAG": "3"}, timeout=900, timeout_thorough=2400),
        dict(name="gsfa_real", pkg="./gsfa", run="^TestVerif_C06$",
             files={"gsfa/zz_verif_c06_test.go": "harness/gsfa/c06_test.go"},
             env={"VERIF_C06_MODE": "real"}, timeout=900, timeout_thorough=2400),
        dict(name="linkedlog", pkg="./gsfa/linkedlog", run="^TestVerif_C06LL$",
             files={"gsfa/linkedlog/zz_verif_c06ll_test.go": "harness/gsfa/linkedlog/c06ll_test.go"},
             timeout=600, timeout_thorough=1800),
    ],
    technique="TODO",
    level_text="TODO",
    level_note="TODO",
    design_ref="5 (C06)",
    trusted=COMMON_TRUSTED,
    assumptions=[],
)
