from common import COMMON_TRUSTED

PROP = dict(
    title="RPC answers for archived slots and signatures reproduce the archive exactly",
    coq_target="Properties/C02.vo",
    harness=[dict(name="rpc", pkg=".", run="^TestVerif_C02$",
                  files={"zz_verif_fixture_test.go": "harness/main/fixture_test.go",
                         "zz_verif_c02_test.go": "harness/main/c02_test.go"},
                  # VERIF_C02_OTHER_CONTENT: an epoch replaced (ReplaceOrAddEpoch) by a build of the same number with OTHER
                  # blocks at the same slots. The pinned tree answers getBlock for such slots from the shared cache's
                  # slot -> CID entries of the replaced build (keyed by the slot only) for up to the cache life time.
                  # "observe" = recorded as notes / counters / measured flag, "enforce" = reported as failures, "off" = skipped.
                  env={"VERIF_C02_OTHER_CONTENT": "observe"},
                  timeout=900, timeout_thorough=2400)],
    technique="Coq proof of the response assembly (order-independent concurrent fetch, position sort, blockhash / previous-blockhash rule, epoch routing on top of the C18 FirstSuccess theorems) + end-to-end differential run of JSON-RPC and gRPC against generated epochs + slottools.CalcEpochForSlot / CalcEpochLimits / range overlap translated on every run (GoLite) and proved equal to the model's epoch routing",
    level_text="Theorems (Coq, no axioms): for every set of loaded epochs, every archived block and EVERY completion order of the concurrent fetches the reply carries slot, parent, time, height, blockhash, previous blockhash (parent in same epoch) and all transactions each once in position order (unique when positions are distinct); for every concurrency limit and schedule of the epoch search a signature archived in exactly one loaded epoch is routed there and an unarchived one is not-found. Tie: every block and (half of the) transactions of three generated epochs (incl. epoch 0 with genesis, multi-frame payloads, 1..4 entries per block) are requested through JSON-RPC in 4 encodings and through gRPC with epoch sets {1},{1,2},{0,1,2} and concurrency 1/NumCPU, compared field by field and byte by byte with the generator's truth; transaction order and previous-blockhash decisions are re-checked by the Coq model.; slottools' epoch routing functions are translated from the Go source on every run and proved to be the model's epoch_of / epoch limits (C02_translated_* theorems)",
    level_note="Trusted: Coq kernel; hand-written model C02_Rpc.v; transport encoders (base58/base64/zstd/JSON), solana-go transaction (un)marshalling, fasthttp/grpc plumbing are exercised only by the differential run. Forced hypotheses: the signature is archived in exactly one loaded epoch (no cross-epoch 64-bit sig-exists + 24-bit sig-to-cid double collision); CIDs are not shared between loaded epochs (the offset cache is keyed by CID only, see known-findings).",
    design_ref="5 (C02)",
    trusted=['translator gen/golite.go (Go leaf functions -> terms of the GoLite fragment, re-run on every check) and the semantics coq/GoLite.v (fixed-width wrap-around, panics on bad index / slice / shift / division, fuel for loops and calls; capacity identified with length; out-parameters for slices written through; aliasing of two arguments not detected) - DESIGN.md section 10a; exercised by the vm_compute examples of the property file', "model C02_Rpc.v of multiepoch-getBlock.go / grpc-server.go / multiepoch-getTransaction.go (hand-written; tied end to end on generated epochs)",
             "transport encoders and solana-go (un)marshalling are trusted libraries"] + COMMON_TRUSTED,
    assumptions=["signature archived in exactly one loaded epoch", "objects of different loaded epochs have different CIDs", "parent block archived when it lies in the same epoch"],
)
