from common import COMMON_TRUSTED

PROP = dict(
    title="Split CARs read back as the exact concatenation of their pieces",
    coq_target="Properties/C16.vo",
    harness=[
        dict(name="multireader", pkg="./split-car-fetcher", run="^TestVerif_C16$",
             files={"split-car-fetcher/zz_verif_c16_test.go": "harness/split-car-fetcher/c16_test.go"},
             timeout=900, timeout_thorough=1500),
        # maxLinks (24 000 blocks per piece) is shrunk to 12 in an edited COPY of cmd-car-split.go so that tiny
        # CARs reach the link limit; the harness reads the constant that was really compiled in.
        dict(name="split", pkg=".", run="^TestVerif_C16Split$",
             files={"zz_verif_c16split_test.go": "harness/main/c16split_test.go"},
             rewrites={"cmd-car-split.go": [("maxLinks = 432000 / 18 ", "maxLinks = 432000 / 18 / 2000 ")]},
             timeout=900, timeout_thorough=1800),
    ],
    technique="Coq proofs by induction over a transcription of MultiReaderAt.ReadAt (all segment vectors, offsets, lengths) and of the split-car fold over block families (all CARs, targets, link limits) + correspondence: exhaustive small piece vectors and random large ones on the real reader, real split-car runs on generated epoch CARs at every boundary target size",
    level_text="Theorems (Coq, no axioms). C16_concat: for every non-empty segment list, off >= 0 and len, ReadAt returns exactly firstn len (skipn off (concat segs)), never a non-EOF error, and io.EOF iff the read is short (iff len > 0 and off+len > total). C16_split_pieces / C16_split_family_once / C16_split_non_ignored: for every CAR, target and link limit the pieces partition the block families (contiguous, original order, each family in exactly one piece, no empty piece), their DAG contents concatenate to the families' sections byte for byte, the recorded ContentSize equals the length of the DAG content, a piece exceeds the target only when it holds one family. C16_header_roundtrip, C16_reader_over_split: the reader over the written pieces serves original header ++ families' sections. Tie: every piece-size vector of <= 4 pieces x 0..6 bytes x every (off,len) x 3 reader kinds on the real MultiReaderAt, random large vectors, NewSplitCarReader over header/content/trailer pieces; the real split-car command on generated CARs at all boundary targets; observations compared with the model by coqc.",
    level_note="Trusted: Coq kernel; the hand transcription of MultiReaderAt.ReadAt over ideal io.ReaderAt segments (bytes.Reader/SectionReader semantics) and of newCmd_SplitCar's callback as a fold (yaml, commP, file I/O, CBOR encoding of the appended Subset/Epoch nodes are not modelled); forced hypothesis total size < MaxInt64. Known finding: the recorded ContentSize excludes the appended Subset/Epoch node, so HeaderSize+ContentSize is not the file size.",
    design_ref="5 (C16)",
    trusted=["models C16_MR.v (fetcher.go MultiReaderAt.ReadAt) and C16_Split.v (cmd-car-split.go callback + accum/block.go grouping), hand-written; tied by exhaustive/random correspondence",
             "ideal segment readers: bytes.Reader / io.SectionReader / os.File ReadAt semantics as quoted in C16_MR.v"] + COMMON_TRUSTED,
    assumptions=["total size of header + pieces < 2^63-1", "uint64 size additions in split-car do not wrap",
                 "section readers of the pieces behave as ideal io.ReaderAt (no transport errors)"],
)

# GoLite (DESIGN.md section 10a)
PROP["technique"] += " + (MultiReaderAt).ReadAt translated on every run (GoLite) and proved equal to the model's segment walk, hence to the concatenation"
PROP["level_text"] += "; (MultiReaderAt).ReadAt itself is translated from the Go source on every run and proved to be the model's read_at_multi for every segment list, offset >= 0 and buffer, with the per-segment readers as an oracle behaving like bytes.Reader / io.SectionReader (C16_translated_ReadAt_is_the_model, C16_translated_ReadAt_is_the_concatenation)"
PROP["trusted"] = ["translator gen/golite.go (Go leaf functions -> terms of the GoLite fragment, re-run on every check; for this function: per-object variable names for shadowed locals, loop locals given their zero value before the loop, the interface method io.ReaderAt.ReadAt as an oracle that returns the new contents of its buffer argument) and the semantics coq/GoLite.v - DESIGN.md section 10a; exercised by the vm_compute example of the property file"] + list(PROP.get("trusted", []))
PROP["technique"] += " + NewMultiReaderAt translated likewise: the offset table it builds is the one the ReadAt theorem is stated for"
PROP["level_text"] += "; the constructor NewMultiReaderAt is translated too and proved to build, from the pieces' sizes, exactly the reader value (offset table = prefix sums, in int64) that the ReadAt theorems are stated for (C16_translated_NewMultiReaderAt_builds_the_offset_table)"
