from common import COMMON_TRUSTED

PROP = dict(
    title="Fast IPLD node decoders agree with the schema-driven reference decoder",
    coq_target="Properties/C11.vo",
    harness=[dict(name="decoders", pkg="./iplddecoders", run="^TestVerif_C11$",
                  files={"iplddecoders/zz_verif_c11_test.go": "harness/iplddecoders/c11_test.go"},
                  timeout=900, timeout_thorough=2400)],
    technique="Coq proof over all schema-conforming values of the seven node kinds (executable transcription of ipld/ipldbindcode/cbor.go over a CBOR item model with a proved parse/encode round trip) + three-way differential execution on the same bytes: bindnode+dag-cbor, the fast decoders, the Coq model",
    level_text="Theorems (Coq, no axioms), for every conforming value of each of the seven kinds and every CID parser: the fast decoder accepts the schema's tuple representation (at item level and through canonical bytes followed by anything) and what it stores is observed through exported fields and Get*/Has* accessors exactly like the value (present-null = omitted); a node of one kind is rejected by the decoder of every other kind, and whatever any decoder accepts on ANY item carries the kind asked for; parse inverts encode for all well-formed nested items. Tie: 300 (quick) / 2000 (thorough) random typed values per kind, encoded by the reference encoder, decoded by the reference decoder, the fast decoder and the model (coqc on the case file: reference bytes = repr_node value, model observation = fast observation = value, value conforming), plus the fixture nodes of the package tests and Entries with 131072/131073 links on the real code.",
    level_note="Forced hypothesis: every list has at most max_array_elements elements (fxamacker/cbor MaxArrayElements; generated from the repository: 131072 with the default decoding mode). C11_list_bound_is_forced proves the fast decoder rejects longer lists; the harness runs the real decoders on both sides of 131072. Also assumed: integers in the int64 range, byte strings shorter than 2^63, each link the bytes of one CID that CidFromBytes consumes entirely. Trusted: Coq kernel; the hand transcription of cbor.go, of the fxamacker behaviour it depends on (nesting/array limits, tag stripping, tag 55799) and of go-cid's CidFromBytes, all validated on every run by the correspondence; ipld-prime bindnode + dag-cbor as the specification side (tied to repr_node on every generated value).",
    design_ref="5 (C11)",
    trusted=["model C11_Nodes.v of ipld/ipldbindcode/cbor.go + iplddecoders/decoders.go (hand-written; tied by three-way correspondence on the reference encoder's bytes)",
             "fxamacker/cbor v2 default decoding mode, go-cid CidFromBytes, ipld-prime bindnode/dag-cbor: third-party; their behaviour on conforming nodes is transcribed (lib_ok/top_arr/norm, cid_len_impl, repr_node) and checked on every case"] + COMMON_TRUSTED,
    assumptions=["every list has at most max_array_elements elements (forced by the CBOR library's MaxArrayElements)",
                 "integers fit int64; byte strings are shorter than 2^63 bytes",
                 "every link holds the bytes of exactly one CID (CidFromBytes succeeds and consumes all of them)"],
)
