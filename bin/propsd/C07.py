from common import COMMON_TRUSTED

PROP = dict(
    title="getSignaturesForAddress paging slices the newest-first history correctly",
    coq_target="Properties/C07.vo",
    harness=[
        dict(name="gsfa", pkg="./gsfa", run="^TestVerif_C07(Shared)?$",
             files={"gsfa/zz_verif_c07_test.go": "harness/gsfa/c07_test.go",
                    # addresses that share transactions, requests interleaved on one long-lived set of readers
                    "gsfa/zz_verif_c07shared_test.go": "harness/gsfa/c07shared_test.go"}, timeout=900, timeout_thorough=2400),
        dict(name="reply", pkg=".", run="^TestVerif_C07Reply$",
             files={"zz_verif_c07reply_test.go": "harness/main/c07reply_test.go"}, timeout=900, timeout_thorough=2400),
    ],
    technique="Coq proof (fold fusion of the nested epoch/record/entry loops into one pass, slice specification, map-order-independent reply, slot window) + differential execution of GsfaReaderMultiepoch and the JSON-RPC handler on indexes written by the real GSFA writer",
    level_text="Theorems (Coq, no axioms) for all per-epoch histories, record splits, limits, before/until (present or absent) and every map iteration order: the result map of GetBeforeUntil, read newest epoch first and key by key, is the slice after `before` / cut to `limit` / up to `until` of the complete history (nested loops with early exits and the per-record limit pre-check = one pass); the repaired reply assembly lists exactly that slice for every iteration order (refuted for the pinned map-order assembly); the repaired GetBeforeUntilSlot returns only slots in [until,before) and exactly the first `limit` entries of the window; absent epochs are skipped without error. Tie: indexes for every (n8,n6,n5) in {0..4}^3 entries per epoch x record splits are written by the real writer and every (limit,before,until) / slot range is run through the real readers and the handler (each request repeated >= 24x); addresses that SHARE transactions (groups of 2..4 addresses drawn from one pool of transactions, each pushed with 1..k of them) are queried on ONE long-lived set of readers / one running MultiEpoch with the requests of the addresses interleaved (A paged through, B asked at every page end and with every signature of A, the full parameter sweep round-robin, everything again in shuffled order), a differing answer being re-asked on freshly opened readers; the observations are checked by the property oracle and by the Coq checker running the proved model.",
    level_note="Trusted: Coq kernel; the hand-written model C07_Model.v of gsfa-read-multiepoch.go and of the reply loop (tied by the exhaustive small-scope runs); Go map semantics (iteration visits every key once, in any order); forced hypotheses: no I/O error from the index files, until < 2^63 (the code compares `tx.Slot < int(until)`), for slot-window completeness slots non-increasing along the newest-first history and inside their epoch.",
    design_ref="5 (C07)",
    trusted=["model C07_Model.v of gsfa/gsfa-read-multiepoch.go (iterBeforeUntil, iterBeforeUntilSlot) and of the reply assembly in multiepoch-getSignaturesForAddress.go (hand-written; tied by exhaustive small-scope correspondence)",
             "coq/Generated/ConstsC07.v: slottools.EpochLen re-read from the repository on every run"] + COMMON_TRUSTED,
    assumptions=["index lookups do not fail with I/O errors", "until < 2^63", "Go map iteration visits each key exactly once"],
)
