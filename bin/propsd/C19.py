from common import COMMON_TRUSTED

PROP = dict(
    title="Streaming a slot range returns exactly the archived items matching the filter",
    coq_target="Properties/C19.vo",
    harness=[dict(name="stream", pkg=".", run="^TestVerif_C19$",
                  files={"zz_verif_fixture_test.go": "harness/main/fixture_test.go",
                         "zz_verif_c19_test.go": "harness/main/c19_test.go"},
                  timeout=900, timeout_thorough=2400)],
    technique="Coq proof; the transaction predicate is TRANSLATED from the Go closure filterOutTxn on every run (gen/c19.go -> Generated/FilterProgC19.v) and proved equal to the filter specification for every filter, transaction and path (never dereferencing an absent flag); (stream = filter keep archived; index path = scan path by a sorted-same-members argument) + differential run of StreamTransactions/StreamBlocks on generated epochs over ranges x filter combinations x index on/off",
    level_text="Theorems (Coq, no axioms), for every archive, range and filter: the scan path streams exactly filter(keep) of the archived transactions in ascending slot/position order and skips slots without a block; StreamBlocks streams exactly the (account-filtered) archived blocks, ascending and inside the range; with a complete address index the index-accelerated path streams exactly what the scan path streams (forced hypothesis: per-account matches within the query limit). Inverted polarity, stop-at-skipped-slot and the cap are refuted by witnesses. Tie: two adjacent generated epochs + a dense one, 7 ranges (inside / across epochs / empty), up to 271 filter combinations, address index loaded or not; every streamed message is matched with the generator's truth and the streamed id lists are re-computed by the Coq model.",
    level_note="Trusted: Coq kernel; hand-written model C19_Stream.v; solana-go transaction decoding and protobuf metadata parsing; the address index's completeness is C06's subject. Hypothesis named in the theorem: at most `limit` matching transactions per included account (the repaired code passes math.MaxInt).",
    design_ref="5 (C19)",
    trusted=["translator gen/c19.go (statement-by-statement translation of filterOutTxn into the guard language of C19_Prog.v; anything unrecognised is an error) and the semantics of that language; txMentionsAccount / getErr / IsSimpleVoteTransaction are atoms (tied by the differential run)", "model C19_Stream.v of grpc-server.go (hand-written; tied by differential streaming runs)"] + COMMON_TRUSTED,
    assumptions=["address index complete (C06)", "per-account matches <= query limit (the code passes math.MaxInt)"],
)
