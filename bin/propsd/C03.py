from common import COMMON_TRUSTED

PROP = dict(
    title="A request is never answered with an object that belongs to a different key",
    coq_target="Properties/C03.vo",
    harness=[dict(name="absentkeys", pkg=".", run="^TestVerif_C03$",
                  files={"zz_verif_fixture_test.go": "harness/main/fixture_test.go",
                         "zz_verif_c03_test.go": "harness/main/c03_test.go",
                         "zz_verif_c03conc_test.go": "harness/main/c03conc_test.go"},
                  timeout=900, timeout_thorough=2400)],
    technique="Coq proof with the index lookups as arbitrary functions (collisions included) + directed collision search on the real indexes replayed through Epoch, JSON-RPC and gRPC, sequentially and concurrently (schedule forced by a gated CAR reader)",
    level_text="Theorems (Coq, no axioms), for ARBITRARY index contents, CAR bytes and decoders: a getBlock/getTransaction answer carries the requested slot / first signature, an absent key is never answered, a CID fetch returns only bytes stored in a section whose CID field is the requested CID; the unchecked variant is refuted by a witness. Tie: in a generated 2 200-block epoch every absent slot of the epoch, 250 000 absent signatures, 200 000 absent CIDs and absent addresses are tried with the index's own lookup; each colliding key (tens per run) is requested through Epoch, the JSON-RPC handler and gRPC with one and three epochs loaded, and the outcome class is compared with the model. Concurrency: each colliding (absent, stored) pair is also requested CONCURRENTLY in both orders, the first request held in its CAR read (CAR served through a ReaderAt of the harness), through Epoch, JSON-RPC and gRPC with one and with four epochs loaded; objects lying at the same CAR offset (and section length) in DIFFERENT loaded epochs are fetched by CID concurrently the same way (two small epochs are generated so that such positions exist); plus an un-gated many-goroutine replay on the local CAR file.",
    level_note="Trusted: Coq kernel; hand-written model of epoch.go GetBlock/GetTransaction/GetNodeByCid; decoders as parameters. GSFA address confirmation is NOT provable of the code (no address stored): recorded as known finding gsfa-address-collision; only that signature is suppressed.",
    design_ref="5 (C03)",
    trusted=["model C03_Lookup.v of epoch.go (hand-written; tied by collision replay on generated epochs)"] + COMMON_TRUSTED,
    assumptions=["none on index contents: lookups are arbitrary functions in the theorems"],
)
