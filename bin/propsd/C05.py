from common import COMMON_TRUSTED

_RULE = ("Theorems (Coq, no axioms) over a byte-level model of bucketteer's writer (Put / in-memory Has / Seal) and reader "
         "(NewReader = Open over any io.ReaderAt, Has with the eytzinger search over 8-byte elements), for BOTH file formats "
         "(current Version 2: all 65 536 prefixes, indexmeta metadata; legacy Version 1: present prefixes sorted by bytes, "
         "borsh string metadata), for EVERY hash function, every multiset of signatures in any order with any duplicates and "
         "any distribution over the prefixes, and all metadata: the sealed file answers Has(s) = Ok(writer's in-memory Has(s)) "
         "for every 64-byte s (C05_writer_agrees); hence every added signature is reported present (C05_no_false_negative) and a signature is "
         "reported present only if an added signature has the same two-byte prefix and the same 64-bit hash (C05_positive_char). Also: "
         "C05_writer_has_char, C05_put_appends_to_own_bucket, C05_small_of_few (fewer than 2^29 signatures satisfy the forced hypothesis), "
         "C05_seal_succeeds, C05_fuel_never_decides (no answer of the model on any byte file is an out-of-fuel artefact); version numbers, "
         "magic and metadata limits are regenerated from the source on every check (Generated/ConstsC05.v).")

PROP = dict(
    title="Signature-existence index has no false negatives",
    coq_target="Properties/C05.vo",
    harness=[
        dict(name="current", pkg="./bucketteer", run="^TestVerif_C05$",
             files={"bucketteer/zz_verif_c05_test.go": "harness/bucketteer/c05_test.go",
                    "bucketteer/zz_verif_c05c_test.go": "harness/bucketteer/c05_common_test.go"},
             timeout=900, timeout_thorough=1500),
        dict(name="legacy", pkg="./deprecated/bucketteer", run="^TestVerif_C05$",
             files={"deprecated/bucketteer/zz_verif_c05_test.go": "harness/deprecated/bucketteer/c05dep_test.go",
                    "deprecated/bucketteer/zz_verif_c05c_test.go": "harness/bucketteer/c05_common_test.go"},
             timeout=900, timeout_thorough=1500),
    ],
    technique="Coq proof over a byte-level executable model of both bucketteer formats (reusing the proved eytzinger layout/search) + differential execution: the real Writer/Reader (mmap and plain ReaderAt) on generated multisets, property oracle on every answer, and the Coq model re-evaluated on the Go-written file bytes",
    level_text=_RULE + " Tie: on every run the real Go writer and readers (mmap, *os.File, bytes.Reader) are exercised on multisets with duplicates, "
               "bucket populations 0,1,2,3,2^k-1,2^k,2^k+1, empty and edge prefixes and up to ~20 000 (quick) / ~200 000 (thorough) signatures, "
               "with the property evaluated on every answer; small runs are handed to coqc, which checks the model writer's Has, the MODEL reader on the "
               "GO-written bytes (cross-read) and the model reader on the model-written file against the Go answers; cespare/xxhash is checked against XXH.xxh64.",
    level_note="Forced hypotheses, stated in the theorems: fewer than 2^29 distinct hashes per prefix (the reader computes the bucket length as uint32(numHashes*8)); "
               "legacy format only: serialized metadata shorter than 2^31 bytes (borsh string lengths / uint32 header size). Trusted: Coq kernel; the hand-written model "
               "(tied by cross-reading Go-written files of both formats on every run); Go's sort.Slice sorts; the lossless segment transport of file bytes into the case files "
               "(re-expanded and compared by the harness before use).",
    design_ref="5 (C05)",
    trusted=["model C05_Model.v of bucketteer/{write,read,bucketteer}.go and deprecated/bucketteer (hand-written; tied by cross-read of Go-written files, both formats)",
             "XXH.xxh64 as a model of cespare/xxhash Sum64 (theorems hold for every hash; differential-tested on every run)",
             "segment transport of file bytes (C05_Check.expand; the harness re-expands and compares before writing a case)"] + COMMON_TRUSTED,
    assumptions=["fewer than 2^29 distinct hashes per two-byte prefix (forced: uint32(numHashes*8) in Reader.Has)",
                 "legacy format: serialized metadata shorter than 2^31 bytes (forced: borsh string length and uint32 header size)",
                 "signatures are 64 bytes (Go type [64]byte)"],
)
