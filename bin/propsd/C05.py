from common import COMMON_TRUSTED

_RULE = ("Theorems (Coq, no axioms) over a byte-level model of bucketteer's writer (Put / in-memory Has / Seal) and reader "
         "(NewReader = Open over any io.ReaderAt, Has with the eytzinger search over 8-byte elements), for BOTH file formats "
         "(current Version 2: all 65 536 prefixes, indexmeta metadata; legacy Version 1: present prefixes sorted by bytes, "
         "borsh string metadata), for EVERY hash function, every multiset of signatures in any order with any duplicates and "
         "any distribution over the prefixes, and all metadata: the sealed file answers Has(s) = Ok(writer's in-memory Has(s)) "
         "for every 64-byte s (C05_writer_agrees); hence every added signature is reported present (C05_no_false_negative) and a signature is "
         "reported present only if an added signature has the same two-byte prefix and the same 64-bit hash (C05_positive_char). Also: "
         "C05_writer_has_char, C05_put_appends_to_own_bucket, C05_small_of_few (fewer than 2^29 signatures satisfy the forced hypothesis), "
         "C05_seal_succeeds, C05_fuel_never_decides (no answer of the model on any byte file is an out-of-fuel artefact); version numbers, "
         "magic and metadata limits are regenerated from the source on every check (Generated/ConstsC05.v).")

# c05_robust_test.go, check `eof-with-full-read-not-served`: the pinned tree (c6260df) does NOT serve a ReaderAt that returns
# (len(p), io.EOF) for a read ending exactly at the end of the file (Reader.Has -> readUint64Le returns the EOF although all
# 8 bytes were delivered; both formats). Until that is repaired in /repo or listed in known-findings.txt the check runs in
# "observe" mode (recorded in the evidence as a note + count, not a failure). Set to "enforce" afterwards.
_ROBUST_ENV = {"VERIF_C05_EOF_FULL_READ": "enforce"}

PROP = dict(
    title="Signature-existence index has no false negatives",
    coq_target="Properties/C05.vo",
    harness=[
        dict(name="current", pkg="./bucketteer", run="^TestVerif_C05(_Robust)?$",
             files={"bucketteer/zz_verif_c05_test.go": "harness/bucketteer/c05_test.go",
                    "bucketteer/zz_verif_c05c_test.go": "harness/bucketteer/c05_common_test.go",
                    "bucketteer/zz_verif_c05r_test.go": "harness/bucketteer/c05_robust_test.go"},
             env=_ROBUST_ENV, timeout=900, timeout_thorough=1500),
        dict(name="legacy", pkg="./deprecated/bucketteer", run="^TestVerif_C05(_Robust)?$",
             files={"deprecated/bucketteer/zz_verif_c05_test.go": "harness/deprecated/bucketteer/c05dep_test.go",
                    "deprecated/bucketteer/zz_verif_c05c_test.go": "harness/bucketteer/c05_common_test.go",
                    "deprecated/bucketteer/zz_verif_c05r_test.go": "harness/bucketteer/c05_robust_test.go"},
             env=_ROBUST_ENV, timeout=900, timeout_thorough=1500),
    ],
    technique="Coq proof over a byte-level executable model of both bucketteer formats (reusing the proved eytzinger layout/search) + differential execution: the real Writer/Reader (mmap and plain ReaderAt) on generated multisets, property oracle on every answer, and the Coq model re-evaluated on the Go-written file bytes; GOMAXPROCS sweep of the writer process and fault-injecting ReaderAt wrappers (transient read errors, end of file reported with the last bytes), concurrent lookups on one Reader through a yielding / blocking ReaderAt (before and after a transient read error)",
    level_text=_RULE + " Tie: on every run the real Go writer and readers (mmap, *os.File, bytes.Reader) are exercised on multisets with duplicates, "
               "bucket populations 0,1,2,3,2^k-1,2^k,2^k+1, empty and edge prefixes and up to ~20 000 (quick) / ~200 000 (thorough) signatures, crowded prefixes of 16 000, 16 001, ~16 040 and more than 32 000 (thorough: 64 000) signatures "
               "(at and beyond the 16 000 hashes of room the current writer starts every bucket with) whose neighbour prefixes p-2..p+2 (little-endian uint16) and byte-order neighbours are populated before, while and after the crowded one, "
               "with the property evaluated on every answer; the same oracle on multisets over the first, last (ffff, feff, ...), byte-swapped and n-way-seam prefixes "
               "(2..9 signatures each plus duplicates, per-bucket put order never an eytzinger layout) sealed in child processes under GOMAXPROCS = default, 1, 2, 3, 5, 6, 7, 12, 16 "
               "(thorough: 19 values up to 96); readers over fault-injecting io.ReaderAt wrappers (every ReadAt of the trace of NewReader + lookups fails once: the failed call may err "
               "but never answers (false, nil) for an added signature, and after a retry every added signature is present on the same Reader; 8..16 goroutines asking one Reader at the same time for all added signatures and absent probes, reading process under GOMAXPROCS 1, 16, 3 and default, the ReaderAt yielding / blocking on a channel handshake / returning at once after it filled the buffer, on a Reader that never met a read error and after every fault injection: every answer equals the sequential one); small runs are handed to coqc, which checks the model writer's Has, the MODEL reader on the "
               "GO-written bytes (cross-read) and the model reader on the model-written file against the Go answers; cespare/xxhash is checked against XXH.xxh64.",
    level_note="Forced hypotheses, stated in the theorems: fewer than 2^29 distinct hashes per prefix (the reader computes the bucket length as uint32(numHashes*8)); "
               "legacy format only: serialized metadata shorter than 2^31 bytes (borsh string lengths / uint32 header size). Trusted: Coq kernel; the hand-written model "
               "(tied by cross-reading Go-written files of both formats on every run); Go's sort.Slice sorts; the lossless segment transport of file bytes into the case files "
               "(re-expanded and compared by the harness before use).",
    design_ref="5 (C05)",
    trusted=["model C05_Model.v of bucketteer/{write,read,bucketteer}.go and deprecated/bucketteer (hand-written; tied by cross-read of Go-written files, both formats)",
             "XXH.xxh64 as a model of cespare/xxhash Sum64 (theorems hold for every hash; differential-tested on every run)",
             "segment transport of file bytes (C05_Check.expand; the harness re-expands and compares before writing a case)"] + COMMON_TRUSTED,
    assumptions=["fewer than 2^29 distinct hashes per two-byte prefix (forced: uint32(numHashes*8) in Reader.Has)",
                 "legacy format: serialized metadata shorter than 2^31 bytes (forced: borsh string length and uint32 header size)",
                 "signatures are 64 bytes (Go type [64]byte)"],
)

# GoLite (DESIGN.md section 10a)
PROP["technique"] += " + searchEytzinger, eytzinger, getCleanSet, prefixToUint16, uint16ToPrefix of both packages translated on every run (GoLite) and proved equal to the model's bsearch / eytz / clean / prefix"
PROP["level_text"] += "; the bucketteer leaf functions of both packages are translated from the Go source on every run and proved to be the model's functions (C05_translated_* theorems)"
PROP["trusted"] = ['translator gen/golite.go (Go leaf functions -> terms of the GoLite fragment, re-run on every check) and the semantics coq/GoLite.v (fixed-width wrap-around, panics on bad index / slice / shift / division, fuel for loops and calls; capacity identified with length; out-parameters for slices written through; aliasing of two arguments not detected) - DESIGN.md section 10a; exercised by the vm_compute examples of the property file'] + list(PROP.get("trusted", []))
PROP["technique"] += " + (*Reader).Has itself (prefix table, hash count through readFullAt, section reader, hash, search whose getter is the function literal over the section reader) translated on every run and proved equal to the model's has for every file reader, offset table and signature"
PROP["level_text"] += "; the whole lookup (*Reader).Has is translated from the Go source on every run - the function literal passed as the search's getter becomes its own translated function and the binding is recorded - and proved, for every file reader (all-or-nothing reads that may fail anywhere, files shorter than 2^62 bytes), every offset table related to the model's and every well-formed signature, to return what C05_Model.has returns (true / false, or an error where the model says Err), the uint32 wrap of the section size and the int64 conversion of the offset included (C05_translated_Has_is_the_models_has)"
