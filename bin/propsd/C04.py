from common import COMMON_TRUSTED

PROP = dict(
    title="Compact hash index: every inserted key is found with its value, in every format",
    coq_target="Properties/C04.vo",
    harness=[
        dict(name="sized", pkg="./compactindexsized", run="^TestVerif_C04$",
             files={"compactindexsized/zz_verif_c04_test.go": "harness/compactindexsized/c04_test.go"},
             timeout=900, timeout_thorough=2400),
        dict(name="triples", pkg="./compactindexsized", run="^TestVerif_C04b$",
             files={"compactindexsized/zz_verif_c04b_test.go": "harness/compactindexsized/c04b_test.go"},
             timeout=600, timeout_thorough=1800),
        dict(name="legacy8", pkg="./deprecated/compactindex", run="^TestVerif_C04$",
             files={"deprecated/compactindex/zz_verif_c04_test.go": "harness/deprecated/compactindex/c04_test.go"},
             timeout=600, timeout_thorough=1800),
        dict(name="legacy36", pkg="./deprecated/compactindex36", run="^TestVerif_C04$",
             files={"deprecated/compactindex36/zz_verif_c04_test.go": "harness/deprecated/compactindex36/c04_test.go"},
             timeout=600, timeout_thorough=1800),
    ],
    technique="Coq proofs over a byte-level model of the three compact-index formats (builder with spill stream, mining, eytzinger layout, header/metadata codecs; reader) for every hash function, + cross-read correspondence: Go-sealed files are read by the Gallina reader with a transcribed xxhash64/EntryHash64/BucketHash, and the Go builder's outcome class is compared with the repaired model builder's",
    level_text="Theorems (Coq, no axioms) for every hash function, bucket function below the bucket count, declared count, value size, metadata, key/value list and insertion order: every inserted key is found with its value (compactindexsized; legacy 36-byte and legacy 8-byte formats), Open returns the header written, any permutation of the inserts gives the byte-identical outcome, duplicate keys / buckets colliding in every domain / unsupported sizes give an error and never a panic or a file, a returned value always belongs to a stored key with the same bucket and 24-bit hash (exact false-positive set), and two refutation lemmas showing the pinned builder (no range checks) violates the property (value size 253 panics, a 65536-byte key is silently recorded as the empty key). Tie: cross-read of Go-sealed files by the Gallina reader (present and absent keys, header, metadata) and builder outcome classes, on seeded random and directed inputs; large sets, all insertion orders of <= 6 keys, seal-twice byte equality and error paths are checked on the Go code by the property oracle.",
    level_note="Forced hypotheses: file < 2^48 bytes, < 2^32 pairs, < 2^32 buckets, metadata within indexmeta limits. Trusted: Coq kernel; hand-written model of build.go/query.go/compactindex.go/indexmeta.go (tied by cross-read on every run); XXH.v as xxhash64 (tied by the same cross-read); temp-file I/O, fallocate and bufio are not modelled (the spill stream is a byte list); the 2^24 bitmap is modelled as a duplicate test; BucketHash's unbounded rejection loop is run on 64 rounds of fuel in the executable instance (theorems do not depend on it).",
    design_ref="5 (C04)",
    trusted=["model C04_Model.v/C04_Formats.v (on CI.v) of compactindexsized and the two deprecated packages (hand-written; tied by cross-read of Go-sealed files and outcome classes)",
             "XXH.v xxhash64 and C04_Hash.v (EntryHash64, BucketHash, murmur finalizer) transcriptions, exercised by every cross-read case"] + COMMON_TRUSTED,
    assumptions=["file shorter than 2^48 bytes, fewer than 2^32 pairs and buckets", "metadata within indexmeta limits (255 pairs, 255-byte keys/values)",
                 "values passed to Insert have the declared value size; legacy 8-byte format: values fit intWidth(FileSize) bytes (documented precondition)"],
)
