from common import COMMON_TRUSTED

PROP = dict(
    title="Compact hash index: every inserted key is found with its value, in every format",
    coq_target="Properties/C04.vo",
    harness=[
        # c04r_test.go (format-independent reader / seal-determinism / concurrent-builder checks) and c04ra_test.go (its
        # adapters for the package) are injected next to every C04 test file
        dict(name="sized", pkg="./compactindexsized", run="^TestVerif_C04$",
             files={"compactindexsized/zz_verif_c04_test.go": "harness/compactindexsized/c04_test.go",
                    "compactindexsized/zz_verif_c04r_test.go": "harness/compactindexsized/c04r_test.go",
                    "compactindexsized/zz_verif_c04ra_test.go": "harness/compactindexsized/c04ra_test.go"},
             timeout=900, timeout_thorough=2400),
        dict(name="triples", pkg="./compactindexsized", run="^TestVerif_C04b$",
             files={"compactindexsized/zz_verif_c04b_test.go": "harness/compactindexsized/c04b_test.go",
                    "compactindexsized/zz_verif_c04r_test.go": "harness/compactindexsized/c04r_test.go",
                    "compactindexsized/zz_verif_c04ra_test.go": "harness/compactindexsized/c04ra_test.go"},
             timeout=600, timeout_thorough=1800),
        dict(name="sealconc", pkg="./compactindexsized", run="^TestVerif_C04c$",
             files={"compactindexsized/zz_verif_c04c_test.go": "harness/compactindexsized/c04c_test.go",
                    "compactindexsized/zz_verif_c04r_test.go": "harness/compactindexsized/c04r_test.go",
                    "compactindexsized/zz_verif_c04ra_test.go": "harness/compactindexsized/c04ra_test.go"},
             timeout=600, timeout_thorough=2400),
        dict(name="legacy8", pkg="./deprecated/compactindex", run="^TestVerif_C04$",
             files={"deprecated/compactindex/zz_verif_c04_test.go": "harness/deprecated/compactindex/c04_test.go",
                    "deprecated/compactindex/zz_verif_c04r_test.go": "harness/deprecated/compactindex/c04r_test.go",
                    "deprecated/compactindex/zz_verif_c04ra_test.go": "harness/deprecated/compactindex/c04ra_test.go"},
             timeout=600, timeout_thorough=1800),
        dict(name="legacy36", pkg="./deprecated/compactindex36", run="^TestVerif_C04$",
             files={"deprecated/compactindex36/zz_verif_c04_test.go": "harness/deprecated/compactindex36/c04_test.go",
                    "deprecated/compactindex36/zz_verif_c04r_test.go": "harness/deprecated/compactindex36/c04r_test.go",
                    "deprecated/compactindex36/zz_verif_c04ra_test.go": "harness/deprecated/compactindex36/c04ra_test.go"},
             timeout=600, timeout_thorough=1800),
    ],
    technique="Coq proofs over a byte-level model of the three compact-index formats (builder with spill stream, mining, eytzinger layout, header/metadata codecs; reader) for every hash function, + cross-read correspondence: Go-sealed files are read by the Gallina reader with a transcribed xxhash64/EntryHash64/BucketHash, and the Go builder's outcome class is compared with the repaired model builder's + the Go functions searchEytzinger, hashUint64, Header.BucketHash, BucketHeader.Hash, uintLe, putUintLe, eytzinger of all three packages translated on every run (GoLite) and proved equal to the model's search_get / murmur / reject / h24 / le_dec / le_enc / Eytz.go",
    level_text="Theorems (Coq, no axioms) for every hash function, bucket function below the bucket count, declared count, value size, metadata, key/value list and insertion order: every inserted key is found with its value (compactindexsized; legacy 36-byte and legacy 8-byte formats), Open returns the header written, any permutation of the inserts gives the byte-identical outcome, duplicate keys / buckets colliding in every domain / unsupported sizes give an error and never a panic or a file, a returned value always belongs to a stored key with the same bucket and 24-bit hash (exact false-positive set), and two refutation lemmas showing the pinned builder (no range checks) violates the property (value size 253 panics, a 65536-byte key is silently recorded as the empty key). Tie: cross-read of Go-sealed files by the Gallina reader (present and absent keys, header, metadata) and builder outcome classes, on seeded random and directed inputs; large sets, all insertion orders of <= 6 keys, seal-twice byte equality and error paths are checked on the Go code by the property oracle; every verified file (all three formats) is also opened and queried through conforming io.ReaderAt variants (EOF together with a full read at the end of the data, a section reader at an offset, Prefetch(true), one transient read error at every position of the read trace of Open+Lookup: an error is accepted for the failed call only), the same inserts are sealed repeatedly under GOMAXPROCS 1/2/3/16 for 1, 2, 3, 8 and 12..14 buckets (byte-identical, also for another insertion order), and 3..4 builders with full buckets sealing at the same time in one process must give the files they give alone; single-bucket key sets whose temporary key/value stream is several MiB (3000+ keys of 1000 bytes, 2200+ keys of 500..4000 bytes, 100+ keys of 30 000..65 535 bytes, 12 000 keys of 150..260 bytes under a declared count of 1; compactindexsized, and thorough tier all formats: also 100 000 short keys under a declared count of 1) are built in three insertion orders in all three formats: all builds fail with an error or all give the same bytes with every key found with its value; the leaf functions of all three packages (search loop, bucket hash with its rejection loop, entry-hash mask, little-endian helpers, eytzinger layout) are translated from the Go source on every run and proved to be the model's functions (C04_translated_*, C04_legacy36_translated_*, C04_legacy8_translated_* theorems)",
    level_note="Forced hypotheses: file < 2^48 bytes, < 2^32 pairs, < 2^32 buckets, metadata within indexmeta limits. Trusted: Coq kernel; hand-written model of build.go/query.go/compactindex.go/indexmeta.go (tied by cross-read on every run); XXH.v as xxhash64 (tied by the same cross-read); temp-file I/O, fallocate and bufio are not modelled (the spill stream is a byte list); the 2^24 bitmap is modelled as a duplicate test; BucketHash's unbounded rejection loop is run on 64 rounds of fuel in the executable instance (theorems do not depend on it).",
    design_ref="5 (C04)",
    trusted=['translator gen/golite.go (Go leaf functions -> terms of the GoLite fragment, re-run on every check) and the semantics coq/GoLite.v (fixed-width wrap-around, panics on bad index / slice / shift / division, fuel for loops and calls; capacity identified with length; out-parameters for slices written through; aliasing of two arguments not detected) - DESIGN.md section 10a; exercised by the vm_compute examples of the property file', "model C04_Model.v/C04_Formats.v (on CI.v) of compactindexsized and the two deprecated packages (hand-written; tied by cross-read of Go-sealed files and outcome classes)",
             "XXH.v xxhash64 and C04_Hash.v (EntryHash64, BucketHash, murmur finalizer) transcriptions, exercised by every cross-read case"] + COMMON_TRUSTED,
    assumptions=["file shorter than 2^48 bytes, fewer than 2^32 pairs and buckets", "metadata within indexmeta limits (255 pairs, 255-byte keys/values)",
                 "values passed to Insert have the declared value size; legacy 8-byte format: values fit intWidth(FileSize) bytes (documented precondition)"],
)
PROP["technique"] += " + (Bucket).Lookup itself (hash, search with b.loadEntry as getter, entry loader over the section reader) translated on every run and proved equal to the model's search over the model's entry loader for every file, complete or cut"
PROP["level_text"] += "; the whole in-bucket lookup (Bucket).Lookup is translated from the Go source on every run, the function passed as the search's getter is recorded by the translator (b.loadEntry) and the getter oracle interpreted as the translated loadEntry over the bucket's section reader: for every index file (complete or cut anywhere), bucket position, entry count, value size, hash domain and key it returns CI.search_get over CI.load_entry - the value, ErrNotFound or the read error (C04_translated_bucket_Lookup_is_the_models_search)"
